#!/usr/bin/env python3
"""Writes the prompts for one batch of independent seeders (sub-agents that get the text of
one property and a scratch worktree, nothing from /verif's machinery).

  tools/mkseedprompts.py <batch-tag> <out-dir>       e.g.  s6 /tmp

For every property CNN it writes <out-dir>/<tag>-prompt-CNN.txt. The prompt contains the
property text, the generic instructions, a theme (rotated so that one batch covers several
kinds of maintainer edit) and the one-line summaries of the changes already seeded for that
property (so that a new seeder looks for a different mechanism). It does not describe any
check, generator or oracle of /verif.
"""
import json, os, sys, glob

ROOT = os.path.dirname(os.path.dirname(os.path.abspath(__file__)))
THEMES = [
    ("a performance optimisation", "a fast path, a cache or memo, bulk / word-at-a-time scanning, avoiding an allocation or a copy, reusing state between calls, a cheaper check replacing an exact one"),
    ("a refactoring or clean-up", "a helper extracted from repeated code, conditions reordered or merged, a loop restructured, a variable's scope or lifetime changed, dead-looking code removed, generated code hand-edited to match"),
    ("a well-meant bug fix or hardening for some OTHER problem", "an extra guard, a limit, a normalisation, an error made friendlier, defensive copying or its removal, that over- or under-corrects in a corner"),
    ("a modernisation / portability edit", "newer standard-library APIs (slices, bits, utf8, unsafe.String/Slice, strings.Builder, clear, min/max), integer-width or signedness assumptions, build-tag or architecture-dependent shortcuts - with a subtle difference in semantics"),
    ("a small feature or behaviour tweak", "a new internal limit or tunable, a changed default, better error reporting, support for one more input form, state kept to make a later call cheaper - whose side effect breaks the property in a corner"),
]


def main(tag, out):
    props = [json.loads(l) for l in open(os.path.join(ROOT, "properties.jsonl"))]
    prior = {}
    for d in sorted(glob.glob(os.path.join(ROOT, "seeded", "*", "meta.json"))):
        m = json.load(open(d))
        prior.setdefault(m.get("property", "?"), []).append((os.path.basename(os.path.dirname(d)), m.get("summary", "")))
    for i, p in enumerate(props):
        pid = p["id"]
        wt, od = "/tmp/%s-%s" % (tag, pid), "/tmp/%s-%s-out" % (tag, pid)
        theme = THEMES[(i + len(tag) + int(tag[-1]) if tag[-1].isdigit() else i) % len(THEMES)]
        used = "\n".join("  - %s: %s" % (n, s[:420]) for n, s in prior.get(pid, []))
        others = ", ".join(n for k, v in sorted(prior.items()) if k != pid for n, _ in v)
        txt = f"""You are helping to test a verification framework by acting as an independent "bug seeder". You work ONLY inside the scratch git worktree {wt} (a checkout of the Go library github.com/willabides/rjson: a fast JSON parser built on Ragel-generated state machines, a custom float parser in internal/fp, and handler-based object/array traversal). Do not read or touch /repo, /verif or any other directory; write your deliverables to {od} (create it).

The library is supposed to satisfy this property:

Property {pid}: {p['title']}

Statement: {p['statement']}

Quantified over: {p['quantifier']['text']}

Your job: produce ONE small, realistic change to the library source in {wt} that BREAKS this property, while
  (a) the package still compiles, and
  (b) the library's existing test suite still passes, unedited:
        cd {wt} && GOFLAGS=-mod=mod GOPROXY=off GOSUMDB=off GOTOOLCHAIN=local go test -vet=off -count=1 ./...
      (takes about 30-60 s; there is no network; run it on the unchanged tree first to see it pass).

Theme for your change: make it look like {theme[0]} ({theme[1]}). It should read like a commit a maintainer could plausibly make and a reviewer could plausibly approve.

The change must need something SPECIFIC to manifest - an unusual input (a particular byte in a particular grammar state, a particular length, digit count, size or nesting depth), a multi-step sequence of calls on a reused Buffer/ValueReader, a particular handler behaviour, particular slice capacity/aliasing, a particular combination of entry points, two cooperating edits that each look fine alone - NOT something that ordinary use, a smoke test, or a randomized differential test over ordinary generated documents would expose at once. Look for a region of behaviour that even a diligent randomized tester would plausibly not reach, and say why.

These changes were already seeded for this property - use a DIFFERENT mechanism and a different triggering condition:
{used or '  (none)'}
(Changes seeded for other properties, by name, also to be avoided: {others}.)

Note: Ragel is not installed, so if you change a state machine edit the generated *.rl.go file directly (and, if you like, the .rl source to match); the generated code is plain Go with gotos.

Deliverables (all under {od}):
  1. patch.diff   - `git -C {wt} diff` of your change (library source files only, no test files).
  2. demo_test.go - a Go test file in `package rjson` (so it can sit next to the library sources) containing one test function TestSeededDemo that FAILS with your change applied and PASSES on the unchanged tree. It may only use the standard library and the package itself, must be deterministic, and must finish within 60 s.
  3. meta.json    - {{"property": "{pid}", "summary": "<one or two sentences: what the change does>", "needs": "<what specific input/sequence/handler behaviour is needed for it to manifest>", "files": ["..."]}}
Verify all of this yourself before finishing:
  - with the change: suite passes; demo fails (copy demo_test.go into {wt}, run `go test -vet=off -count=1 -run TestSeededDemo .`, then remove the copy);
  - without the change: `git -C {wt} apply -R {od}/patch.diff`, demo passes, then `git -C {wt} apply {od}/patch.diff` again. Do NOT use `git stash` (the stash is shared between worktrees of the same repository and other seeders are working in parallel).
Leave {wt} with your change applied and no extra files. In your final message state the summary, what is needed to manifest it, and the verification results you observed. Always set GOFLAGS=-mod=mod GOPROXY=off GOSUMDB=off GOTOOLCHAIN=local for go commands.
"""
        open(os.path.join(out, "%s-prompt-%s.txt" % (tag, pid)), "w").write(txt)
    print("wrote %d prompts" % len(props))


if __name__ == "__main__":
    main(sys.argv[1], sys.argv[2])
