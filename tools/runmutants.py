#!/usr/bin/env python3
"""Sensitivity runner. For each selected mutant of mutants/catalog.json: copy the rjson
sources to a scratch directory outside /repo and /verif, apply the edit, run the named
property's check against the copy (VERIF_REPO), record detected / survived, delete the copy.

  tools/runmutants.py [--tier quick] [--suite] [--props C01,C02] [ids or id-prefixes...]

--suite additionally runs the pinned test suite on the mutated copy (does it still pass?).
Results are appended to mutants/results.jsonl; mutants/RESULTS.md is regenerated.
"""
import json, os, shutil, subprocess, sys, time, glob

ROOT = os.path.dirname(os.path.dirname(os.path.abspath(__file__)))
SCRATCH = "/root/scratch"


def goenv():
    e = dict(os.environ)
    e.update(GOFLAGS="-mod=mod", GOPROXY="off", GOSUMDB="off", GOTOOLCHAIN="local")
    return e


def make_copy(dst):
    shutil.rmtree(dst, ignore_errors=True)
    os.makedirs(dst)
    for f in glob.glob("/repo/*.go") + glob.glob("/repo/*.rl") + ["/repo/go.mod", "/repo/go.sum"]:
        shutil.copy(f, dst)
    shutil.copytree("/repo/internal", os.path.join(dst, "internal"))
    os.symlink("/repo/testdata", os.path.join(dst, "testdata"))
    os.symlink("/repo/benchmarks", os.path.join(dst, "benchmarks"))


def apply(m, dst):
    edits = m.get("edits") or [m]
    for ed in edits:
        path = os.path.join(dst, ed["file"])
        s = open(path).read()
        start = 0
        if ed.get("after"):
            start = s.index(ed["after"])
        idx = start
        for _ in range(int(ed.get("nth", 0)) + 1):
            idx = s.index(ed["find"], idx + (1 if _ else 0))
        s = s[:idx] + ed["replace"] + s[idx + len(ed["find"]):]
        open(path, "w").write(s)
    p = subprocess.run(["go", "build", "./..."], cwd=dst, env=goenv(), stdout=subprocess.PIPE, stderr=subprocess.STDOUT, text=True, errors="replace")
    if p.returncode != 0:
        raise RuntimeError("mutant does not compile:\n" + p.stdout)


def diff_of(dst):
    out = []
    for f in sorted(glob.glob(os.path.join(dst, "*.go")) + glob.glob(os.path.join(dst, "internal/fp/*.go"))):
        rel = os.path.relpath(f, dst)
        p = subprocess.run(["diff", "-u", "--label", "a/" + rel, "--label", "b/" + rel, os.path.join("/repo", rel), f],
                           stdout=subprocess.PIPE, text=True)
        out.append(p.stdout)
    return "".join(out)


def run_suite(dst):
    p = subprocess.run(["go", "test", "-vet=off", "-count=1", "-timeout", "25m", "./..."], cwd=dst, env=goenv(),
                       stdout=subprocess.PIPE, stderr=subprocess.STDOUT, text=True, errors="replace")
    return p.returncode == 0


def main(argv):
    tier, suite, sel, props_filter = "quick", False, [], None
    suite_only = False
    i = 0
    while i < len(argv):
        if argv[i] == "--tier":
            tier = argv[i + 1]; i += 2
        elif argv[i] == "--suite":
            suite = True; i += 1
        elif argv[i] == "--suite-only":
            suite = True; suite_only = True; i += 1
        elif argv[i] == "--props":
            props_filter = set(argv[i + 1].split(",")); i += 2
        else:
            sel.append(argv[i]); i += 1
    cat = json.load(open(os.path.join(ROOT, "mutants", "catalog.json")))
    os.makedirs(SCRATCH, exist_ok=True)
    for m in cat:
        if sel and not any(m["id"] == s or m["id"].startswith(s) for s in sel):
            continue
        if props_filter and not (set(m["props"]) & props_filter):
            continue
        dst = os.path.join(SCRATCH, "mut-" + m["id"])
        try:
            make_copy(dst)
            apply(m, dst)
            os.makedirs(os.path.join(ROOT, "mutants", "patches"), exist_ok=True)
            open(os.path.join(ROOT, "mutants", "patches", m["id"] + ".diff"), "w").write(diff_of(dst))
            rec = {"id": m["id"], "desc": m["desc"], "tier": tier, "results": {}}
            if suite:
                rec["suite_passes"] = run_suite(dst)
            for prop in m["props"]:
                if suite_only or (props_filter and prop not in props_filter):
                    continue
                env = dict(os.environ)
                env["VERIF_REPO"] = dst
                env["VERIF_REPLAY_OUT"] = os.path.join(dst, "replay-out")
                env["VERIF_EVIDENCE_OUT"] = os.path.join(dst, "evidence-out")
                t0 = time.time()
                p = subprocess.run([os.path.join(ROOT, "check"), prop, "--tier", tier], env=env, stdout=subprocess.PIPE,
                                   stderr=subprocess.STDOUT, text=True, errors="replace")
                dt = time.time() - t0
                verdict = {0: "SURVIVED", 1: "DETECTED", 2: "INCONCLUSIVE"}.get(p.returncode, "rc=%d" % p.returncode)
                detail = ""
                for line in p.stdout.splitlines():
                    if line.startswith("violation detail:"):
                        detail = line[len("violation detail:"):].strip()[:300]
                if verdict == "INCONCLUSIVE":
                    detail = p.stdout[-400:]
                rec["results"][prop] = {"verdict": verdict, "wall_s": round(dt, 1), "detail": detail}
                print("%-28s %-4s %-12s %6.1fs  %s" % (m["id"], prop, verdict, dt, detail[:140]), flush=True)
            if suite:
                print("%-28s suite_passes=%s" % (m["id"], rec["suite_passes"]), flush=True)
            open(os.path.join(ROOT, "mutants", "results.jsonl"), "a").write(json.dumps(rec) + "\n")
        except Exception as ex:
            print("%-28s ERROR %s" % (m["id"], str(ex)[:500]), flush=True)
        finally:
            shutil.rmtree(dst, ignore_errors=True)
    write_md(cat)


def write_md(cat):
    latest = {}
    path = os.path.join(ROOT, "mutants", "results.jsonl")
    if not os.path.exists(path):
        return
    for line in open(path):
        r = json.loads(line)
        d = latest.setdefault(r["id"], {"desc": r["desc"], "results": {}, "suite": None})
        for p, v in r["results"].items():
            d["results"][p + "/" + r["tier"]] = v
        if "suite_passes" in r:
            d["suite"] = r["suite_passes"]
    lines = ["# Sensitivity results (latest run per mutant x property x tier)", "",
             "Generated by tools/runmutants.py; each mutant is an edit to a scratch copy of rjson, never to /repo.", "",
             "| mutant | what it changes | pinned suite passes | check | verdict | time |", "|---|---|---|---|---|---|"]
    for m in cat:
        d = latest.get(m["id"])
        if not d:
            continue
        for k, v in sorted(d["results"].items()):
            if k.split("/")[0] not in m["props"]:
                continue  # the mutant was retargeted since that run
            lines.append("| %s | %s | %s | %s | %s | %.1fs |" % (m["id"], m["desc"], {None: "not run", True: "yes", False: "no"}[d["suite"]], k, v["verdict"], v["wall_s"]))
    open(os.path.join(ROOT, "mutants", "RESULTS.md"), "w").write("\n".join(lines) + "\n")


if __name__ == "__main__":
    if sys.argv[1:] == ["--md"]:
        write_md(json.load(open(os.path.join(ROOT, "mutants", "catalog.json"))))
    else:
        main(sys.argv[1:])
