#!/usr/bin/env python3
"""Prints the budget table of DESIGN.md section 8 from the committed quick-tier evidence files
and the log of a thorough pass (lines "OK property=CNN tier=thorough ... evaluations=N wall=Ws").

  tools/budgets.py <thorough-log>
"""
import json, os, re, sys

ROOT = os.path.dirname(os.path.dirname(os.path.abspath(__file__)))


def human(n):
    if n >= 1e9:
        return "%.1f G" % (n / 1e9)
    if n >= 1e6:
        return "%.1f M" % (n / 1e6)
    if n >= 1e3:
        return "%.0f k" % (n / 1e3)
    return str(n)


def main():
    thorough = {}
    if len(sys.argv) > 1:
        for line in open(sys.argv[1], errors="replace"):
            m = re.search(r"OK property=(C\d\d) tier=thorough seed=\d+ evaluations=(\d+) wall=([\d.]+)s", line)
            if m:
                thorough[m.group(1)] = (int(m.group(2)), float(m.group(3)))
    meta = json.load(open(os.path.join(ROOT, "propmeta.json")))
    print("| | quick (1 process): evaluations, distinct non-trivial, stages, wall | thorough (shards): evaluations, wall incl. fuzz + coverage |")
    print("|---|---|---|")
    tq = tt = 0.0
    for i in range(1, 21):
        p = "C%02d" % i
        e = json.load(open(os.path.join(ROOT, "evidence", p + ".json")))
        c = e["coverage"]
        tq += e["wall_s"]
        t = thorough.get(p)
        shards = meta[p].get("shards_thorough", 16) if isinstance(meta, dict) and p in meta else 16
        fuzz = meta[p].get("fuzz_s", 0) if isinstance(meta, dict) and p in meta else 0
        tcell = "not run"
        if t:
            tt += t[1]
            tcell = "%d shards, %s%s, %.0f s" % (shards, human(t[0]), (" + %d s fuzz" % fuzz) if fuzz else "", t[1])
        print("| %s | %s, %s, %d stages, %.0f s | %s |" % (p, human(c["evaluations"]), human(c.get("distinct_nontrivial", 0)), len(c.get("stages", [])), e["wall_s"], tcell))
    print()
    print("`./check all --tier quick`: %.0f s in total; the thorough pass: %.0f min." % (tq, tt / 60))


if __name__ == "__main__":
    main()
