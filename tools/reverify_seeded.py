#!/usr/bin/env python3
"""Re-run the checks against every stored seeded change (regression suite for the checks).

For each seeded/<id>/: a scratch worktree of /repo HEAD under /tmp, `git apply patch.diff`,
`./check <prop> --tier quick` with VERIF_REPO pointing at it for every property that is
recorded as having detected it, worktree removed again. Writes seeded/REVERIFY.md."""
import json, os, glob, subprocess, sys, shutil, time

ROOT = os.path.dirname(os.path.dirname(os.path.abspath(__file__)))


def sh(cmd, cwd=None, env=None):
    return subprocess.run(cmd, cwd=cwd, env=env, stdout=subprocess.PIPE, stderr=subprocess.STDOUT, text=True)


def main():
    only = sys.argv[1:]
    # --rows FILE: (with prefixes) also dump the rows as JSON; --merge F1 F2 ...: write
    # REVERIFY.md from such files (lets several processes share the work)
    rows_out = None
    if len(only) >= 2 and only[0] == "--rows":
        rows_out, only = only[1], only[2:]
    if only and only[0] == "--merge":
        rows, by_design = [], set()
        for f in only[1:]:
            d = json.load(open(f))
            rows += [tuple(r) for r in d["rows"]]
            by_design |= set(d["by_design"])
        rows.sort()
        return finish(rows, by_design, [], "1", "REVERIFY.md")
    seed = "1"
    if len(only) >= 2 and only[0] == "--seed":
        seed, only = only[1], only[2:]
    out_md = "REVERIFY.md" if seed == "1" else "REVERIFY-seed%s.md" % seed
    rows = []
    by_design = set()
    for meta_path in sorted(glob.glob(os.path.join(ROOT, "seeded", "*", "meta.json"))):
        d = os.path.dirname(meta_path)
        sid = os.path.basename(d)
        if only and not any(sid.startswith(o) for o in only):
            continue
        meta = json.load(open(meta_path))
        if meta.get("not_detected_by_design"):
            rows.append((sid, meta.get("property", "-"), "not run: outside the claimed domain (see meta.json)"))
            by_design.add(sid)
            continue
        props = sorted({k.split("/")[0] for k, v in meta.get("check_results", {}).items() if v.get("verdict") == "DETECTED"})
        if not props:
            props = [meta["property"]]
        wt = "/tmp/reverify-" + sid
        sh(["git", "-C", "/repo", "worktree", "remove", "--force", wt])
        shutil.rmtree(wt, ignore_errors=True)
        r = sh(["git", "-C", "/repo", "worktree", "add", "--detach", wt, "HEAD"])
        try:
            r = sh(["git", "apply", os.path.join(d, "patch.diff")], cwd=wt)
            if r.returncode != 0:
                rows.append((sid, "-", "patch does not apply: " + r.stdout[:100]))
                continue
            for prop in props:
                scratch = "/root/scratch/reverify-" + sid
                env = dict(os.environ)
                env.update(VERIF_REPO=wt, VERIF_REPLAY_OUT=scratch + "/replay", VERIF_EVIDENCE_OUT=scratch + "/evidence", VERIF_WORK=scratch + "/work")
                t0 = time.time()
                p = sh([os.path.join(ROOT, "check"), prop, "--tier", "quick", "--seed", seed], env=env)
                verdict = {0: "MISSED", 1: "detected", 2: "inconclusive"}.get(p.returncode, str(p.returncode))
                rows.append((sid, prop, "%s (%.0f s)" % (verdict, time.time() - t0)))
                print(sid, prop, verdict, flush=True)
                shutil.rmtree(scratch, ignore_errors=True)
        finally:
            sh(["git", "-C", "/repo", "worktree", "remove", "--force", wt])
            shutil.rmtree(wt, ignore_errors=True)
    sh(["git", "-C", "/repo", "worktree", "prune"])
    if rows_out:
        json.dump({"rows": rows, "by_design": sorted(by_design)}, open(rows_out, "w"))
    return finish(rows, by_design, only, seed, out_md)


def finish(rows, by_design, only, seed, out_md):
    if not only:
        with open(os.path.join(ROOT, "seeded", out_md), "w") as f:
            f.write("# Quick-tier checks (seed %s) re-run against every stored seeded change\n\n" % seed + "| seeded change | check | verdict |\n|---|---|---|\n")
            for sid, prop, v in rows:
                f.write("| %s | %s | %s |\n" % (sid, prop, v))
    bad = [r for r in rows if not r[2].startswith("detected") and r[0] not in by_design]
    seeds = sorted({r[0] for r in rows})
    undetected = [s for s in seeds if s not in by_design and not any(r[0] == s and r[2].startswith("detected") for r in rows)]
    if not only:
        with open(os.path.join(ROOT, "seeded", out_md), "a") as f:
            f.write("\n%d seeded changes (%d of them outside the claimed domain by design, not run), %d check runs; changes detected by no check: %s; check runs that did not detect (the change is caught by another check in the table): %s\n"
                    % (len(seeds), len(by_design), len(rows) - len(by_design), undetected or "none", ["%s/%s" % (r[0], r[1]) for r in bad] or "none"))
    print("total", len(rows), "runs not detecting:", bad, "seeds detected by no check:", undetected)


if __name__ == "__main__":
    main()
