#!/usr/bin/env python3
"""Confirm a seeded change produced by an independent sub-agent and run the checks against it.

  tools/seeded.py <worktree-with-change-applied> <deliverables-dir> <seed-id> <prop> [more props...]

Confirms (in the worktree): the pinned suite passes with the change; the demonstration test
fails with the change and passes without it. Then runs ./check <prop> (quick; thorough if
quick misses) with VERIF_REPO=<worktree>, never touching /repo. Stores everything under
/verif/seeded/<seed-id>/ (patch.diff, demo_test.go, meta.json).
"""
import json, os, shutil, subprocess, sys, time

ROOT = os.path.dirname(os.path.dirname(os.path.abspath(__file__)))


def goenv():
    e = dict(os.environ)
    e.update(GOFLAGS="-mod=mod", GOPROXY="off", GOSUMDB="off", GOTOOLCHAIN="local")
    return e


def run(cmd, cwd, timeout=1800):
    p = subprocess.run(cmd, cwd=cwd, env=goenv(), stdout=subprocess.PIPE, stderr=subprocess.STDOUT, text=True, timeout=timeout)
    return p.returncode, p.stdout


def main():
    wt, out, sid, props = sys.argv[1], sys.argv[2], sys.argv[3], sys.argv[4:]
    dest = os.path.join(ROOT, "seeded", sid)
    os.makedirs(dest, exist_ok=True)
    # the deliverable patch.diff is the truth (git stash is shared between worktrees, so the
    # worktree itself may have been disturbed by a concurrent seeder): reset and re-apply it
    patch = os.path.join(out, "patch.diff")
    shutil.copy(patch, os.path.join(dest, "patch.diff"))
    run(["git", "reset", "-q"], wt)
    run(["git", "checkout", "--", "."], wt)
    run(["git", "clean", "-fdq"], wt)  # files a patch adds (ignored files such as testdata/tmp stay)
    rc, o = run(["git", "apply", patch], wt)
    if rc != 0:
        print("patch does not apply:", o); return 2
    rc, diff = run(["git", "diff", "--stat"], wt)
    print(diff.strip())
    demo = os.path.join(out, "demo_test.go")
    shutil.copy(demo, os.path.join(dest, "demo_test.go"))
    meta = json.load(open(os.path.join(out, "meta.json")))
    ran = {}
    # suite with the change
    t0 = time.time()
    rc, o = run(["go", "test", "-vet=off", "-count=1", "-timeout", "25m", "./..."], wt)
    ran["suite_with_change"] = "pass" if rc == 0 else "FAIL"
    print("suite with change:", ran["suite_with_change"], "%.0fs" % (time.time() - t0))
    # demo with the change
    tmp = os.path.join(wt, "zz_seeded_demo_test.go")
    shutil.copy(demo, tmp)
    try:
        rc, o = run(["go", "test", "-vet=off", "-count=1", "-run", "TestSeededDemo", "."], wt)
        ran["demo_with_change"] = "fails" if rc != 0 else "PASSES (unexpected)"
        run(["git", "apply", "-R", patch], wt)  # back to HEAD (also removes files the patch adds); the demo file stays
        try:
            rc, o = run(["go", "test", "-vet=off", "-count=1", "-run", "TestSeededDemo", "."], wt)
            ran["demo_without_change"] = "passes" if rc == 0 else "FAILS (unexpected): " + o[-300:]
        finally:
            run(["git", "apply", patch], wt)
    finally:
        os.remove(tmp)
    print("demo:", ran["demo_with_change"], "/", ran["demo_without_change"])
    confirmed = ran["suite_with_change"] == "pass" and ran["demo_with_change"] == "fails" and ran["demo_without_change"] == "passes"
    results = {}
    scratch = "/root/scratch/seeded-" + sid
    shutil.rmtree(scratch, ignore_errors=True)
    for prop in props:
        for tier in (("quick",) if os.environ.get("SEEDED_QUICK_ONLY") else ("quick", "thorough")):
            env = goenv()
            env.update(VERIF_REPO=wt, VERIF_REPLAY_OUT=os.path.join(scratch, "replay"), VERIF_EVIDENCE_OUT=os.path.join(scratch, "evidence"), VERIF_WORK=os.path.join(scratch, "work"))
            t0 = time.time()
            p = subprocess.run([os.path.join(ROOT, "check"), prop, "--tier", tier], env=env, stdout=subprocess.PIPE, stderr=subprocess.STDOUT, text=True)
            verdict = {0: "missed", 1: "DETECTED", 2: "inconclusive"}.get(p.returncode, "rc=%d" % p.returncode)
            detail = ""
            for line in p.stdout.splitlines():
                if line.startswith("violation detail:"):
                    detail = line[len("violation detail:"):].strip()[:400]
            if verdict == "inconclusive":
                detail = p.stdout[-400:]
            results["%s/%s" % (prop, tier)] = {"verdict": verdict, "wall_s": round(time.time() - t0, 1), "detail": detail}
            print("%s %s %s %.1fs %s" % (prop, tier, verdict, time.time() - t0, detail[:160]))
            if verdict == "DETECTED":
                break
    shutil.rmtree(scratch, ignore_errors=True)
    meta.update({"seed_id": sid, "confirmed_by_me": confirmed, "what_i_ran": ran, "check_results": results,
                 "how": "worktree with the change applied used via VERIF_REPO (never applied to /repo)"})
    json.dump(meta, open(os.path.join(dest, "meta.json"), "w"), indent=1)
    return 0


if __name__ == "__main__":
    sys.exit(main())
