package props

import (
	"fmt"
	"strings"
	"testing"

	"verifharness/core"
	"verifharness/gen"

	"pgregory.net/rapid"
)

func TestC20(t *testing.T) {
	runProp(t, "C20", func(e *env) {
		r := e.r
		maxN := e.cfg.Pick(2500, 12000) // container sizes; documents reach ~30 KB quick / ~150-400 KB thorough
		maxUse := 0.0
		maxUseAt := ""
		var maxTiny uint64
		maxPerByte := 0.0
		readFns := []string{"ReadValue", "ReadObject", "ReadArray", "pkg.ReadValue", "pkg.ReadObject", "pkg.ReadArray"}
		bufFns := []string{"Valid", "SkipValue", "SkipValueFast", "HandleArrayValues", "HandleObjectValues"}
		// runHistory executes a history and records it
		runHistory := func(kind string, steps []core.Case, shape bool) error {
			restore := c20Deterministic()
			defer restore()
			var run c20Runner
			run.sawShape = shape
			c := &core.Case{Prop: "C20", Kind: kind, Steps: steps}
			r.BeginCase(c)
			var err error
			for i := range steps {
				if err = run.step(&steps[i]); err != nil {
					err = fmt.Errorf("step %d: %w", i, err)
					break
				}
				r.Idle()
			}
			key := uint64(14695981039346656037)
			for i := range steps {
				key = core.HashInts(core.Hash([]byte(steps[i].Kind), steps[i].In, []byte(fmt.Sprint(steps[i].Strs)))^key, steps[i].Ints...)
			}
			nt := run.nontrivial()
			r.Eval(key, nt)
			r.LabelN("calls", int64(run.calls))
			r.LabelN("input-bytes", int64(run.inLen))
			r.Label("history." + kind)
			if run.maxUse > maxUse {
				maxUse = run.maxUse
				maxUseAt = fmt.Sprintf("%s %s%v (+%d more steps)", steps[0].Kind, strings.Join(steps[0].Strs, ","), steps[0].Ints, len(steps)-1)
			}
			if run.maxTinyCall > maxTiny {
				maxTiny = run.maxTinyCall
			}
			if run.maxBigPerByte > maxPerByte {
				maxPerByte = run.maxBigPerByte
			}
			if nt && r.WantSample(key) {
				var desc []string
				for i := range steps {
					if i >= 6 {
						desc = append(desc, "...")
						break
					}
					d := steps[i].Kind
					if len(steps[i].Strs) > 0 {
						d += fmt.Sprintf(" %s%v", steps[i].Strs[0], steps[i].Ints)
					} else if steps[i].Kind != "GC" {
						d += " " + core.Preview(steps[i].In)
					}
					desc = append(desc, d)
				}
				r.Sample(map[string]interface{}{"kind": kind, "calls": run.calls, "input_bytes": run.inLen, "allocated": run.alloc, "bound": run.bound, "steps": desc})
			}
			if err != nil {
				return &caseErr{c, err}
			}
			return nil
		}
		// 1. single documents of every adversarial family, sizes drawn, through every function
		e.rapidStage("shapes", "rapid", e.cfg.N(2500, 60000), func(rt *rapid.T) {
			fam := []string{"big-then-small", "big-then-small", "big-then-small", "alternating", "wide-flat", "deep", "escapes-every-level", "escaped-keys", "truncated-big", "escape-run", "escape-run"}[rapid.IntRange(0, 10).Draw(rt, "family")]
			var p []int64
			switch fam {
			case "big-then-small":
				p = []int64{int64(rapid.IntRange(0, maxN).Draw(rt, "n")), int64(rapid.IntRange(0, maxN).Draw(rt, "m")), int64(rapid.IntRange(0, 63).Draw(rt, "variant"))}
			case "alternating":
				p = []int64{int64(rapid.IntRange(0, maxN/4).Draw(rt, "n")), int64(rapid.IntRange(0, maxN/2).Draw(rt, "m"))}
			case "wide-flat", "truncated-big":
				p = []int64{int64(rapid.IntRange(0, 3*maxN).Draw(rt, "n")), int64(rapid.IntRange(0, 3).Draw(rt, "kind"))}
			case "deep":
				p = []int64{int64(rapid.IntRange(1, 10001).Draw(rt, "depth")), int64(rapid.IntRange(0, 7).Draw(rt, "pattern"))}
			case "escapes-every-level":
				p = []int64{int64(rapid.IntRange(1, e.cfg.Pick(1500, 9990)).Draw(rt, "depth"))}
			case "escaped-keys":
				p = []int64{int64(rapid.IntRange(0, maxN).Draw(rt, "n"))}
			case "escape-run":
				p = []int64{int64(rapid.IntRange(0, 4*maxN).Draw(rt, "n")), int64(rapid.IntRange(0, 39).Draw(rt, "kind"))}
			}
			fns := append(append([]string{}, readFns...), bufFns...)
			fn := fns[rapid.IntRange(0, len(fns)-1).Draw(rt, "fn")]
			mode := int64(rapid.IntRange(0, 1).Draw(rt, "handlermode"))
			if fam == "deep" && rapid.IntRange(0, 2).Draw(rt, "verydeep?") == 0 {
				// the traversals have no depth limit of their own: nesting far beyond 10 000
				fn = bufFns[rapid.IntRange(0, len(bufFns)-1).Draw(rt, "buffn")]
				p[0] = int64(rapid.IntRange(10001, e.cfg.Pick(160000, 600000)).Draw(rt, "verydeep"))
			}
			steps := []core.Case{{Kind: fn, Strs: []string{fam}, Ints: append([]int64{1, mode}, p...)}}
			r.Label("family." + fam)
			if err := runHistory("shape", steps, true); err != nil {
				failRapid(rt, r, caseOf("C20", "shape", nil, err), err)
			}
		})
		// 1a. traversals far beyond the depth limit (the handler machines have no limit of their
		// own, so their stack must grow amortised at any depth): every mixture at three depths
		if e.enumStage("very-deep-traversals", "8 array/object mixtures x depths {20000, 50000, 120000} x the traversal matching the outermost container, declining handler", true) {
		vd:
			for pat := int64(0); pat < 8; pat++ {
				for _, d := range []int64{20000, 50000, 120000} {
					if !e.cfg.Mine(int(pat*3 + d)) {
						continue
					}
					probe := c20Shape("deep", []int64{1, pat})
					fn := "HandleArrayValues"
					if probe[0] == '{' {
						fn = "HandleObjectValues"
					}
					steps := []core.Case{{Kind: fn, Strs: []string{"deep"}, Ints: []int64{1, 0, d, pat}}}
					if err := runHistory("very-deep", steps, true); err != nil {
						r.Fail(caseOf("C20", "very-deep", nil, err), err)
						break vd
					}
				}
			}
		}
		// 1a'. one string holding a long run of each escape kind after each prefix kind
		if e.enumStage("escape-runs", "40 (escape unit x prefix) kinds x n in {2000, 8000} through ReadValue and pkg.ReadValue", true) {
		er:
			for k := int64(0); k < 40; k++ {
				if !e.cfg.Mine(int(k)) {
					continue
				}
				for _, n := range []int64{2000, 8000} {
					for _, fn := range []string{"ReadValue", "pkg.ReadValue"} {
						steps := []core.Case{{Kind: fn, Strs: []string{"escape-run"}, Ints: []int64{1, 0, n, k}}}
						if err := runHistory("escape-run", steps, true); err != nil {
							r.Fail(caseOf("C20", "escape-run", nil, err), err)
							break er
						}
					}
				}
			}
		}
		// 1a''. documents of 0.3 .. 48 MB made of sibling containers that each hold one escaped
		// string (the string scratch of pooled child readers at every document size)
		if e.enumStage("escaped-siblings", "32 variants (sibling object/array, escape in value/key, outer array/object, escaped string 0..3 container levels below the sibling) x (siblings, padding) in {(2000,120), (6000,500), (300,10000); thorough also (6000,2000), (3000,16000)} x {ReadValue, pkg.ReadValue}", true) {
			sizes := [][2]int64{{2000, 120}, {6000, 500}, {300, 10000}}
			if e.cfg.Thorough() {
				sizes = append(sizes, [2]int64{6000, 2000}, [2]int64{3000, 16000})
			}
			idx := 0
		es:
			for v := int64(0); v < 32; v++ {
				for _, sz := range sizes {
					if v >= 8 && sz != sizes[1] && !e.cfg.Thorough() {
						continue // the deeper placements of the escaped string: one size in quick
					}
					for _, fn := range []string{"ReadValue", "pkg.ReadValue"} {
						idx++
						if !e.cfg.Mine(idx) {
							continue
						}
						steps := []core.Case{{Kind: fn, Strs: []string{"escaped-siblings"}, Ints: []int64{1, 0, sz[0], sz[1], v}}}
						if err := runHistory("escaped-siblings", steps, true); err != nil {
							r.Fail(caseOf("C20", "escaped-siblings", nil, err), err)
							break es
						}
					}
				}
			}
		}
		// 1a-3. ragged matrices: long and short rows alternating (or growing) in documents of
		// several megabytes - a per-row reservation that looks at the rest of the document
		// instead of the row is quadratic only here
		if e.enumStage("ragged", "8 variants (rows of numbers / objects; alternating, mostly short, growing) x (rows, long, short) in {(480, 2500, 1), (2000, 600, 2); thorough also (2000, 2500, 1)} x {ReadValue, pkg.ReadArray}", true) {
			sizes := [][3]int64{{480, 2500, 1}, {2000, 600, 2}}
			if e.cfg.Thorough() {
				sizes = append(sizes, [3]int64{2000, 2500, 1})
			}
			idx := 0
		rg:
			for v := int64(0); v < 8; v++ {
				for _, sz := range sizes {
					for _, fn := range []string{"ReadValue", "pkg.ReadArray"} {
						idx++
						if !e.cfg.Mine(idx) {
							continue
						}
						steps := []core.Case{{Kind: fn, Strs: []string{"ragged"}, Ints: []int64{1, 0, sz[0], sz[1], sz[2], v}}}
						if err := runHistory("ragged", steps, true); err != nil {
							r.Fail(caseOf("C20", "ragged", nil, err), err)
							break rg
						}
					}
				}
			}
		}
		// 1b. cross-entry-point grid: a big document through one entry point, then many small
		// ones through another, on the same reader and buffer (size hints that outlive the call
		// they were learned in, in every pairing of entry points)
		if e.enumStage("entry-point-grid", "16 big-then-small variants (n=3000, m in {1,2}) x 11 functions for the big document x 11 functions for 16 small documents repeated 300 times", true) {
			fns := append(append([]string{}, readFns...), bufFns...)
			idx := 0
		grid:
			for v := int64(0); v < 16; v++ { // v&8 = big container last; m = 1 for v < 8 (the big object is the LAST sibling's predecessor)
				for _, bigFn := range fns {
					for _, smallFn := range fns {
						idx++
						if !e.cfg.Mine(idx) {
							continue
						}
						isReader := func(f string) bool { return f == "ReadValue" || f == "ReadObject" || f == "ReadArray" }
						if !(isReader(bigFn) && isReader(smallFn)) && (idx%9 != 0) {
							continue // pairings that cannot share state are sampled, not enumerated
						}
						steps := []core.Case{{Kind: bigFn, Strs: []string{"big-then-small"}, Ints: []int64{1, 0, 3000, 1 + v/8%2, v}}}
						for which := int64(0); which < 16; which++ {
							steps = append(steps, core.Case{Kind: smallFn, Strs: []string{"small"}, Ints: []int64{300, which % 2, which}})
						}
						if err := runHistory("grid", steps, true); err != nil {
							r.Fail(caseOf("C20", "grid", nil, err), err)
							break grid
						}
					}
				}
			}
		}
		// 2. histories on one reader / one buffer: a large document, then many small ones that
		// succeed, are malformed, have the wrong type or are null; GC actions in between
		e.rapidStage("histories", "stateful", e.cfg.N(900, 30000), func(rt *rapid.T) {
			var steps []core.Case
			nBig := rapid.IntRange(1, 3).Draw(rt, "nbig")
			for b := 0; b < nBig; b++ {
				fam := []string{"big-then-small", "wide-flat", "escaped-keys", "deep", "truncated-big"}[rapid.IntRange(0, 4).Draw(rt, "bigfamily")]
				var p []int64
				switch fam {
				case "big-then-small":
					p = []int64{int64(rapid.IntRange(maxN/4, maxN).Draw(rt, "n")), int64(rapid.IntRange(0, 40).Draw(rt, "m")), int64(rapid.IntRange(0, 63).Draw(rt, "variant"))}
				case "wide-flat", "truncated-big":
					p = []int64{int64(rapid.IntRange(maxN, 4*maxN).Draw(rt, "n")), int64(rapid.IntRange(0, 3).Draw(rt, "kind"))}
				case "escaped-keys":
					p = []int64{int64(rapid.IntRange(maxN/4, maxN).Draw(rt, "n"))}
				case "deep":
					p = []int64{int64(rapid.IntRange(100, 10000).Draw(rt, "depth")), int64(rapid.IntRange(0, 7).Draw(rt, "pattern"))}
				}
				fns := append(append([]string{}, readFns[:3]...), bufFns...)
				steps = append(steps, core.Case{Kind: fns[rapid.IntRange(0, len(fns)-1).Draw(rt, "fn")], Strs: []string{fam}, Ints: append([]int64{1, 0}, p...)})
				nSmall := rapid.IntRange(1, 6).Draw(rt, "nsmallkinds")
				for s := 0; s < nSmall; s++ {
					if rapid.IntRange(0, 5).Draw(rt, "gc?") == 0 {
						steps = append(steps, core.Case{Kind: "GC"})
					}
					fns := append(append([]string{}, readFns[:3]...), bufFns...)
					fn := fns[rapid.IntRange(0, len(fns)-1).Draw(rt, "smallfn")]
					rep := int64([]int{1, 3, 40, 400, 1500}[rapid.IntRange(0, 4).Draw(rt, "repeat")])
					if rapid.IntRange(0, 3).Draw(rt, "generated?") == 0 {
						d := gen.DocTrail(rt, gen.Tiny)
						steps = append(steps, core.Case{Kind: fn, In: d, Ints: []int64{rep, int64(rapid.IntRange(0, 1).Draw(rt, "handlermode"))}})
					} else {
						steps = append(steps, core.Case{Kind: fn, Strs: []string{"small"}, Ints: []int64{rep, int64(rapid.IntRange(0, 1).Draw(rt, "handlermode")), int64(rapid.IntRange(0, 15).Draw(rt, "which"))}})
					}
				}
			}
			if err := runHistory("history", steps, false); err != nil {
				failRapid(rt, r, caseOf("C20", "history", nil, err), err)
			}
		})
		// 3. generated documents (wide / deep profiles) through the generic decoder on one reader
		e.rapidStage("generated", "rapid", e.cfg.N(1500, 40000), func(rt *rapid.T) {
			var steps []core.Case
			n := rapid.IntRange(1, 12).Draw(rt, "ndocs")
			for i := 0; i < n; i++ {
				p := []gen.Profile{gen.Wide, gen.Deep, gen.Stringy, gen.Small}[rapid.IntRange(0, 3).Draw(rt, "profile")]
				d := gen.DocTrail(rt, p)
				if rapid.IntRange(0, 4).Draw(rt, "mut?") == 0 {
					d = gen.Mutate(rt, d)
				}
				fns := append(append([]string{}, readFns...), bufFns...)
				steps = append(steps, core.Case{Kind: fns[rapid.IntRange(0, len(fns)-1).Draw(rt, "fn")], In: d, Ints: []int64{int64(rapid.IntRange(1, 3).Draw(rt, "repeat")), int64(rapid.IntRange(0, 1).Draw(rt, "handlermode"))}})
			}
			if err := runHistory("generated", steps, false); err != nil {
				failRapid(rt, r, caseOf("C20", "generated", nil, err), err)
			}
		})
		r.Extra("max_bound_utilisation", maxUse)
		r.Extra("max_bound_utilisation_at", maxUseAt)
		r.Extra("max_alloc_of_a_later_call_on_a_tiny_input_bytes", maxTiny)
		r.Extra("max_alloc_per_input_byte_on_inputs_over_4KiB", maxPerByte)
		r.Extra("bound", fmt.Sprintf("sum(alloc) <= sum(len*(K + %d*D)) + %d*calls over every prefix of a history, K = %d for the generic decoders and %d for Valid/SkipValue/SkipValueFast/Handle*Values", c20Kd, c20C, c20K, c20KBuf))
	})
}
