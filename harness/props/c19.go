package props

import (
	"fmt"
	"runtime"
	"testing"

	"verifharness/core"
	"verifharness/ref"

	"github.com/willabides/rjson"
)

func init() { Checks["C19"] = CheckC19 }

// zfuncs: the calls the property names. Each takes pre-allocated state only.
var c19Funcs = []string{"ReadFloat64", "ReadInt64", "ReadUint64", "ReadInt32", "ReadUint32", "ReadInt", "ReadUint", "ReadBool", "ReadNull",
	"NextToken", "NextTokenType", "DecodeFloat64", "DecodeInt64", "DecodeUint64", "DecodeInt32", "DecodeUint32", "DecodeInt", "DecodeUint", "DecodeBool",
	"SkipValue", "SkipValueFast", "Valid", "HandleArrayValues", "HandleObjectValues", "ReadStringBytes", "UnescapeStringContent",
	"HandleArrayValues/recursive", "HandleObjectValues/recursive", "ReadStringBytes/arena", "UnescapeStringContent/arena"}

// walker is a pre-allocated, non-allocating handler that re-enters the library on every
// container member with the very Buffer of the enclosing call (the natural recursive
// tree-walker), and skips scalars itself.
type walker struct {
	buf *rjson.Buffer
	n   int
}

func (w *walker) HandleArrayValue(d []byte) (int, error) {
	w.n++
	if len(d) > 0 && d[0] == '[' {
		return rjson.HandleArrayValues(d, w, w.buf)
	}
	if len(d) > 0 && d[0] == '{' {
		return rjson.HandleObjectValues(d, w, w.buf)
	}
	return 0, nil
}

func (w *walker) HandleObjectValue(k, d []byte) (int, error) { return w.HandleArrayValue(d) }

func c19FuncIndex(name string) int {
	for i, n := range c19Funcs {
		if n == name {
			return i
		}
	}
	return -1
}

// zcase is one pre-built call: everything it needs is allocated before measuring.
type zcase struct {
	fn  int
	in  []byte
	dst []byte        // spare capacity >= len(in)
	buf *rjson.Buffer // warmed on the same document
	h   *nopHandler   // pre-allocated pointer-receiver handler that declines
	w   *walker       // pre-allocated recursive handler sharing buf
	// targets for the Decode forms (heap-allocated once, here)
	f  float64
	i  int64
	u  uint64
	i3 int32
	u3 uint32
	ii int
	uu uint
	b  bool
}

// run performs the call; returns whether it succeeded. Must not allocate itself.
func (z *zcase) run() bool {
	var err error
	switch z.fn {
	case 0:
		_, _, err = rjson.ReadFloat64(z.in)
	case 1:
		_, _, err = rjson.ReadInt64(z.in)
	case 2:
		_, _, err = rjson.ReadUint64(z.in)
	case 3:
		_, _, err = rjson.ReadInt32(z.in)
	case 4:
		_, _, err = rjson.ReadUint32(z.in)
	case 5:
		_, _, err = rjson.ReadInt(z.in)
	case 6:
		_, _, err = rjson.ReadUint(z.in)
	case 7:
		_, _, err = rjson.ReadBool(z.in)
	case 8:
		_, err = rjson.ReadNull(z.in)
	case 9:
		_, _, err = rjson.NextToken(z.in)
	case 10:
		_, _, err = rjson.NextTokenType(z.in)
	case 11:
		_, err = rjson.DecodeFloat64(z.in, &z.f)
	case 12:
		_, err = rjson.DecodeInt64(z.in, &z.i)
	case 13:
		_, err = rjson.DecodeUint64(z.in, &z.u)
	case 14:
		_, err = rjson.DecodeInt32(z.in, &z.i3)
	case 15:
		_, err = rjson.DecodeUint32(z.in, &z.u3)
	case 16:
		_, err = rjson.DecodeInt(z.in, &z.ii)
	case 17:
		_, err = rjson.DecodeUint(z.in, &z.uu)
	case 18:
		_, err = rjson.DecodeBool(z.in, &z.b)
	case 19:
		_, err = rjson.SkipValue(z.in, z.buf)
	case 20:
		_, err = rjson.SkipValueFast(z.in, z.buf)
	case 21:
		if !rjson.Valid(z.in, z.buf) {
			return false
		}
	case 22:
		_, err = rjson.HandleArrayValues(z.in, z.h, z.buf)
	case 23:
		_, err = rjson.HandleObjectValues(z.in, z.h, z.buf)
	case 24:
		_, _, err = rjson.ReadStringBytes(z.in, z.dst[:0])
	case 25:
		_, _, err = rjson.UnescapeStringContent(z.in, z.dst[:0])
	case 26:
		_, err = rjson.HandleArrayValues(z.in, z.w, z.buf)
	case 27:
		_, err = rjson.HandleObjectValues(z.in, z.w, z.buf)
	case 28:
		// input and destination are two non-overlapping parts of ONE allocation (a read buffer
		// whose tail is used as working space)
		_, _, err = rjson.ReadStringBytes(z.in, z.dst[:0])
	case 29:
		_, _, err = rjson.UnescapeStringContent(z.in, z.dst[:0])
	}
	return err == nil
}

// newZcase builds the pre-allocated state and warms it (first run outside measurement).
// ok reports whether the call is in the property's domain (it succeeds).
func newZcase(fn int, in []byte) (*zcase, bool) {
	z := &zcase{fn: fn, in: append([]byte(nil), in...), h: &nopHandler{}}
	if (fn >= 19 && fn <= 23) || fn >= 26 {
		z.buf = &rjson.Buffer{} // warmed below by the function under test itself, on the same document
		z.w = &walker{buf: z.buf}
	}
	if fn == 24 || fn == 25 {
		z.dst = make([]byte, 0, len(in)+8)
	}
	if fn == 28 || fn == 29 {
		arena := make([]byte, len(in), 2*len(in)+16)
		copy(arena, in)
		z.in, z.dst = arena[:len(in)], arena[len(in):len(in)]
	}
	ok := false
	if err := core.Catch(func() error { ok = z.run() && z.run(); return nil }); err != nil {
		return z, false
	}
	return z, ok
}

// newZcaseCold builds a case whose Buffer has seen exactly ONE successful call of fn.
func newZcaseCold(fn int, in []byte) (*zcase, bool) {
	z := &zcase{fn: fn, in: append([]byte(nil), in...), h: &nopHandler{}, buf: &rjson.Buffer{}}
	ok := false
	if err := core.Catch(func() error { ok = z.run(); return nil }); err != nil {
		return z, false
	}
	return z, ok
}

// allocsOf measures the average number of heap allocations of the batch.
func allocsOf(batch []*zcase, runs int) float64 {
	return testing.AllocsPerRun(runs, func() {
		for _, z := range batch {
			z.run()
		}
	})
}

// coldMallocs measures the heap allocations of running the batch ONCE right after two
// garbage collections (which empty every sync.Pool): state hidden inside the library that a
// caller cannot warm (a pooled scratch object, a lazily built table) shows here although a
// warmed-up average would be zero. Minimum over three trials (noise is additive).
func coldMallocs(batch []*zcase) uint64 {
	var ms runtime.MemStats
	best := ^uint64(0)
	for trial := 0; trial < 3; trial++ {
		runtime.GC()
		runtime.GC()
		runtime.ReadMemStats(&ms)
		before := ms.Mallocs
		for _, z := range batch {
			z.run()
		}
		runtime.ReadMemStats(&ms)
		if d := ms.Mallocs - before; d < best {
			best = d
		}
		if best == 0 {
			break
		}
	}
	return best
}

// findColdAllocating bisects a batch whose cold measurement is non-zero.
func findColdAllocating(batch []*zcase) *zcase {
	if len(batch) == 0 || coldMallocs(batch) == 0 {
		return nil
	}
	if len(batch) == 1 {
		return batch[0]
	}
	mid := len(batch) / 2
	if z := findColdAllocating(batch[:mid]); z != nil {
		return z
	}
	return findColdAllocating(batch[mid:])
}

// confirmAlloc re-measures a single case 5 x 200 runs; the true count is deterministic and
// noise is additive, so it must be non-zero every time to count.
func confirmAlloc(z *zcase) (float64, bool) {
	min := -1.0
	for i := 0; i < 5; i++ {
		a := testing.AllocsPerRun(200, func() { z.run() })
		if a == 0 {
			return 0, false
		}
		if min < 0 || a < min {
			min = a
		}
	}
	return min, true
}

// findAllocating bisects a batch with a non-zero measurement down to single cases.
func findAllocating(batch []*zcase) *zcase {
	if len(batch) == 0 {
		return nil
	}
	if allocsOf(batch, 3) == 0 && allocsOf(batch, 3) == 0 {
		return nil
	}
	if len(batch) == 1 {
		if _, ok := confirmAlloc(batch[0]); ok {
			return batch[0]
		}
		return nil
	}
	mid := len(batch) / 2
	if z := findAllocating(batch[:mid]); z != nil {
		return z
	}
	return findAllocating(batch[mid:])
}

// c19Nontrivial: float beyond the fast path, string with an escape, or nesting >= 2.
func c19Nontrivial(fn int, in []byte) bool {
	switch {
	case fn == 0 || fn == 11:
		i := ref.SkipWS(in, 0)
		if e := ref.Number(in, i); e > 0 {
			return floatNontrivial(in[i:e])
		}
	case fn == 24 || fn == 25 || fn == 28 || fn == 29:
		for _, c := range in {
			if c == '\\' {
				return true
			}
		}
	case fn >= 19:
		d, max := 0, 0
		for _, c := range in {
			if c == '[' || c == '{' {
				d++
				if d > max {
					max = d
				}
			} else if c == ']' || c == '}' {
				d--
			}
		}
		return max >= 2
	}
	return false
}

// CheckC19: Strs[0] = function name; In = input.
func CheckC19(c *core.Case) error {
	if len(c.Strs) < 1 {
		return fmt.Errorf("bad case")
	}
	fn := c19FuncIndex(c.Strs[0])
	if fn < 0 {
		return fmt.Errorf("unknown function %q", c.Strs[0])
	}
	if c.Kind == "cross-warm" && len(c.Strs) >= 2 {
		var ms runtime.MemStats
		min := ^uint64(0)
		for trial := 0; trial < 5 && min != 0; trial++ {
			w, wok := newZcaseCold(c19FuncIndex(c.Strs[1]), c.In)
			if !wok {
				return nil
			}
			z := &zcase{fn: fn, in: w.in, buf: w.buf, h: w.h}
			runtime.ReadMemStats(&ms)
			before := ms.Mallocs
			ok := z.run()
			runtime.ReadMemStats(&ms)
			if !ok {
				return nil
			}
			if x := ms.Mallocs - before; x < min {
				min = x
			}
		}
		if min > 0 {
			return fmt.Errorf("%s allocates %d times on its first call with a Buffer that %s has just used successfully on the same document", c.Strs[0], min, c.Strs[1])
		}
		return nil
	}
	z, ok := newZcase(fn, c.In)
	if !ok {
		return nil // not a successful call: outside the domain
	}
	if a, bad := confirmAlloc(z); bad {
		return fmt.Errorf("%s allocates %.1f times per successful call on %.80q (warmed buffer, destination with spare capacity, non-allocating handler)", c.Strs[0], a, c.In)
	}
	if n := coldMallocs([]*zcase{z}); n > 0 {
		return fmt.Errorf("%s allocates %d times in a successful call on %.80q made right after a garbage collection (caller-side buffers warmed; state the caller cannot warm is cold)", c.Strs[0], n, c.In)
	}
	return nil
}
