package props

import (
	"fmt"
	"math"
	"strconv"

	"verifharness/core"
	"verifharness/ref"

	"github.com/willabides/rjson"
)

func init() { Checks["C04"] = CheckC04 }

// floatNontrivial: the literal leaves the exact-arithmetic fast path: more than 15
// significant digits, or a decimal exponent (after removing the fraction) beyond +-22.
func floatNontrivial(tok []byte) bool {
	i := 0
	if i < len(tok) && tok[i] == '-' {
		i++
	}
	sig, frac, seenDot, started := 0, 0, false, false
	for ; i < len(tok); i++ {
		c := tok[i]
		if c == '.' {
			seenDot = true
			continue
		}
		if c == 'e' || c == 'E' {
			break
		}
		if c != '0' {
			started = true
		}
		if started {
			sig++
		}
		if seenDot {
			frac++
		}
	}
	exp := 0
	if i < len(tok) {
		e, err := strconv.Atoi(string(tok[i+1:]))
		if err != nil {
			e = 1 << 20
			if len(tok) > i+1 && tok[i+1] == '-' {
				e = -e
			}
		}
		exp = e
	}
	e10 := exp - frac
	return sig > 15 || e10 > 22 || e10 < -22
}

// c04Check: in is a JSON number literal optionally followed by other bytes. The oracle is
// strconv.ParseFloat on the token the reference scanner delimits.
func c04Check(in []byte) (nontrivial bool, class string, err error) {
	i := ref.SkipWS(in, 0)
	end := ref.Number(in, i)
	if end < 0 {
		return false, "not-a-number", nil // outside the domain (C13/C05 cover wrong tokens)
	}
	tok := in[i:end]
	want, perr := strconv.ParseFloat(string(tok), 64)
	wantErr := perr != nil
	if wantErr {
		if ne, ok := perr.(*strconv.NumError); !ok || ne.Err != strconv.ErrRange {
			return false, "oracle", errOracle // ParseFloat must accept every JSON number literal
		}
	}
	oracle := "strconv.ParseFloat"
	// The property is correct rounding of the exact decimal value. strconv is that, except
	// on the literals ref.RiskyNumber describes; there (and on a quarter of the literals
	// of at most 64 bytes and a sixteenth of those of at most 4 KiB, as a standing cross-check
	// of strconv) exact rational arithmetic decides.
	if h := core.Hash(tok); ref.RiskyNumber(tok) || len(tok) <= 64 && h%4 == 0 || len(tok) <= 4096 && h%16 == 1 || len(tok) <= 200000 && h%64 == 2 {
		ef, eovf := ref.ExactFloat(tok)
		if eovf != wantErr || !eovf && math.Float64bits(ef) != math.Float64bits(want) {
			oracle = "exact rational rounding (strconv.ParseFloat differs)"
		}
		want, wantErr = ef, eovf
		if eovf {
			perr = strconv.ErrRange
		} else {
			perr = nil
		}
	}
	nontrivial = floatNontrivial(tok)
	class = "finite"
	switch {
	case wantErr:
		class = "overflow"
	case want == 0:
		class = "zero/underflow"
	case math.Abs(want) < 2.2250738585072014e-308:
		class = "subnormal"
	}
	got, p, gerr := rjson.ReadFloat64(in)
	if (gerr != nil) != wantErr {
		return nontrivial, class, fmt.Errorf("ReadFloat64(%.80q): err=%v value=%v; %s: value=%v err=%v", in, gerr, got, oracle, want, perr)
	}
	if !wantErr {
		if math.Float64bits(got) != math.Float64bits(want) {
			return nontrivial, class, fmt.Errorf("ReadFloat64(%.80q) = %v (bits %#x); %s gives %v (bits %#x)", in, got, math.Float64bits(got), oracle, want, math.Float64bits(want))
		}
		if p != end {
			return nontrivial, class, fmt.Errorf("ReadFloat64(%.80q) returned p=%d; the literal ends at %d", in, p, end)
		}
	}
	var dv float64 = 12345.5
	dp, derr := rjson.DecodeFloat64(in, &dv)
	if (derr != nil) != wantErr || (!wantErr && (math.Float64bits(dv) != math.Float64bits(want) || dp != end)) {
		return nontrivial, class, fmt.Errorf("DecodeFloat64(%.80q) = (%v, p=%d, %v); want (%v, p=%d, error=%v)", in, dv, dp, derr, want, end, wantErr)
	}
	// through the generic decoder, as an array member and an object value
	wrapped := make([]byte, 0, len(tok)+12)
	wrapped = append(append(append(wrapped, `[{"k":`...), tok...), `}]`...)
	v, vp, verr := rjson.ReadValue(wrapped)
	if (verr != nil) != wantErr {
		return nontrivial, class, fmt.Errorf("ReadValue(%.80q): err=%v; number should fit float64: %v", wrapped, verr, !wantErr)
	}
	if !wantErr {
		ok := vp == len(wrapped)
		if arr, isArr := v.([]interface{}); ok && isArr && len(arr) == 1 {
			m, _ := arr[0].(map[string]interface{})
			f, isF := m["k"].(float64)
			ok = isF && math.Float64bits(f) == math.Float64bits(want)
		} else {
			ok = false
		}
		if !ok {
			return nontrivial, class, fmt.Errorf("ReadValue(%.80q) = %#v (p=%d); want the number %v", wrapped, v, vp, want)
		}
	}
	return nontrivial, class, nil
}

func CheckC04(c *core.Case) error {
	if c.Kind == "cold" {
		return checkCold(c)
	}
	_, _, err := c04Check([]byte(c.In))
	return err
}
