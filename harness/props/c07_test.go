package props

import (
	"strings"
	"testing"

	"verifharness/core"
	"verifharness/gen"
	"verifharness/ref"

	"github.com/willabides/rjson"

	"pgregory.net/rapid"
)

var _ = rjson.Valid

func TestC07(t *testing.T) {
	runProp(t, "C07", func(e *env) {
		e.coldStage(8, 9, 33, 34, 35)
		r := e.r
		n := int64(0)
		used := primedBuffer() // long-lived: carried through the whole run
		one := func(kind string, in []byte, k byte, bits uint64) error {
			n++
			bufcfg := n % 3
			buf := bufferConfig(bufcfg % 2)
			if bufcfg == 2 {
				buf = used
			}
			res, err := c07Check(in, k, buf, bits)
			if err != nil && bufcfg == 2 {
				// pin the failure to a reproducible buffer configuration if possible
				for _, alt := range []int64{0, 2} {
					if _, e2 := c07Check(in, k, bufferConfig(alt), bits); e2 != nil {
						bufcfg, err = alt, e2
						break
					}
				}
			}
			key := core.HashInts(core.Hash(in), int64(k), int64(bits))
			r.Eval(key, res.nontrivial)
			switch {
			case !res.inDomain:
				r.Label("out-of-domain(depth)")
			case res.ok:
				r.Label("success")
			default:
				r.Label("rejected")
			}
			if res.nontrivial && r.WantSample(key) {
				r.SampleInput(key, kind, in, "traversal", string(k), "strategy_bits", bits, "members", res.members)
			}
			if err != nil {
				return &caseErr{&core.Case{Prop: "C07", Kind: kind, In: append([]byte(nil), in...), Ints: []int64{int64(k), bufcfg, int64(bits)}}, err}
			}
			return nil
		}
		// all strategies for small member counts, three fixed ones plus drawn beyond
		strategies := func(in []byte, extra uint64) []uint64 {
			nm := 0
			if e := ref.Skip(in, ref.MaxDepth); e >= 0 {
				if i0 := ref.SkipWS(in, 0); in[i0] == '[' || in[i0] == '{' {
					ms, _ := ref.Members(in)
					nm = len(ms)
				}
			}
			if nm >= 1 && nm <= 5 {
				out := make([]uint64, 0, 1<<uint(nm))
				for b := uint64(0); b < 1<<uint(nm); b++ {
					out = append(out, b)
				}
				return out
			}
			return []uint64{0, ^uint64(0), 0xAAAAAAAAAAAAAAAA, extra}
		}
		eval := func(kind string, in []byte, extra uint64) error {
			for _, k := range []byte{'[', '{'} {
				for _, bits := range strategies(in, extra) {
					if err := one(kind, in, k, bits); err != nil {
						return err
					}
				}
			}
			return nil
		}
		run := func(kind string, in []byte, extra uint64) bool {
			r.Begin(kind, in)
			if err := core.Catch(func() error { return eval(kind, in, extra) }); err != nil {
				r.Fail(caseOf("C07", kind, in, err), err)
				return false
			}
			return true
		}
		// 1. null, its near-misses, non-container first values, empty containers
		if e.enumStage("literals", "null and near-misses, scalars, empty and tiny containers x prefixes x suffixes x both traversals x all strategies", true) {
			toks := []string{"null", "nul", "nulL", "nullx", "n", "Null", "true", "false", "1", "-1.5e3", `"a"`, `""`, "[]", "{}", "[ ]", "{ }", "[1]", `{"a":1}`,
				`[null]`, `{"a":null}`, "[[]]", "[{}]", `{"a":{}}`, `{"a":[]}`, "[", "{", "]", "}", "", "[,]", "{,}", `{"a"}`, `{"a":}`, `{:1}`, "[1,]", `{"a":1,}`, "[1 2]", `{"a":1 "b":2}`,
				`{"a" :1}`, `{"a": 1}`, `{ "a":1 }`, "[ 1 , 2 ]", `{"a\"b":1}`, `{"A":1,"A":2}`, `{"":1}`, `[tru]`, `[nul]`, `[1.]`, `["a]`, `{"a:1}`}
		lits:
			for ti, tok := range toks {
				if !e.cfg.Mine(ti) {
					continue
				}
				for _, pre := range []string{"", " ", "\t\r\n", "\x0c"} {
					for _, suf := range []string{"", " ", "x", ",", "]", "}", "null", "\x00"} {
						if !run("literal", []byte(pre+tok+suf), 0x5) {
							break lits
						}
					}
				}
			}
		}
		// 2. rapid containers of every member type with all / drawn strategy mixes
		e.rapidStage("containers", "rapid", e.cfg.N(40000, 3000000), func(rt *rapid.T) {
			p := gen.AnyProfile(rt)
			kind := byte("[{"[rapid.IntRange(0, 1).Draw(rt, "kind")])
			var b []byte
			b = append(b, []string{"", "", " ", "\n"}[rapid.IntRange(0, 3).Draw(rt, "pre")]...)
			b = gen.Container(rt, b, p, kind, 1+rapid.IntRange(0, p.MaxDepth).Draw(rt, "depth"))
			b = append(b, gen.Trailers[rapid.IntRange(0, len(gen.Trailers)-1).Draw(rt, "trail")]...)
			for k := rapid.IntRange(0, 2).Draw(rt, "nmut") / 2; k > 0; k-- {
				b = gen.Mutate(rt, b)
			}
			extra := rapid.Uint64().Draw(rt, "strategy")
			r.Begin("container", b)
			if err := core.Catch(func() error { return eval("container", b, extra) }); err != nil {
				failRapid(rt, r, caseOf("C07", "container", b, err), err)
			}
		})
		// 3. position x byte sweeps around small containers (traversal still validates)
		e.rapidStage("sweep", "sweep", e.cfg.N(120, 12000), func(rt *rapid.T) {
			kind := byte("[{"[rapid.IntRange(0, 1).Draw(rt, "kind")])
			b := gen.Container(rt, nil, gen.Tiny, kind, 2)
			if len(b) > 48 {
				b = gen.Container(rt, nil, gen.Profile{MaxDepth: 1, MaxMembers: 2, WS: 6, StrPieces: 2, Scalars: 8}, kind, 1)
			}
			if len(b) > 64 {
				b = b[:64]
			}
			extra := rapid.Uint64().Draw(rt, "strategy")
			var ferr error
			var bad []byte
			gen.Sweep(b, func(x []byte) bool {
				r.Begin("sweep", x)
				err := core.Catch(func() error {
					for _, bits := range []uint64{0, ^uint64(0), extra} {
						if err := one("sweep", x, kind, bits); err != nil {
							return err
						}
					}
					return nil
				})
				if err != nil {
					ferr, bad = err, keepSpare(x)
					return false
				}
				return true
			})
			if ferr != nil {
				failRapid(rt, r, caseOf("C07", "sweep", bad, ferr), ferr)
			}
		})
		// 3b. member counts and key lengths round powers of two (field-name slices, stack growth,
		// per-member bookkeeping): n members x key length L, every third member a container
		if e.enumStage("sizes", "arrays and objects with n members (0..20, 2^k-1..2^k+1 up to 4097, 65535..65537) x key length in {1, 7, 8, 9, 255, 256, 4096, 65536} (objects), scalars with every third member a small container; strategies decline-all / exact-all / alternating", true) {
			var ns []int
			for n := 0; n <= 20; n++ {
				ns = append(ns, n)
			}
			for k := 5; k <= 12; k++ {
				ns = append(ns, 1<<uint(k)-1, 1<<uint(k), 1<<uint(k)+1)
			}
			ns = append(ns, 1<<16-1, 1<<16, 1<<16+1)
			idx := 0
		sizes:
			for _, n := range ns {
				for _, kl := range []int{0, 1, 7, 8, 9, 255, 256, 4096, 65536} {
					idx++
					if !e.cfg.Mine(idx) {
						continue
					}
					if kl > 256 && n > 40 || kl > 9 && n > 4097 {
						continue // keep documents under a few megabytes
					}
					var b []byte
					open, cl := byte('['), byte(']')
					if kl > 0 {
						open, cl = '{', '}'
					}
					b = append(b, open)
					for i := 0; i < n; i++ {
						if i > 0 {
							b = append(b, ',')
						}
						if kl > 0 {
							b = append(b, '"')
							for j := 0; j < kl; j++ {
								b = append(b, byte('a'+(i+j)%26))
							}
							b = append(b, '"', ':')
						}
						switch i % 3 {
						case 0:
							b = append(b, '1', '2')
						case 1:
							b = append(b, `"v\n"`...)
						default:
							b = append(b, `[{"k":[]}]`...)
						}
					}
					b = append(b, cl)
					r.Begin("sizes", b)
					err := core.Catch(func() error {
						for _, bits := range []uint64{0, ^uint64(0), 0xAAAAAAAAAAAAAAAA} {
							if err := one("sizes", b, open, bits); err != nil {
								return err
							}
						}
						return nil
					})
					if err != nil {
						r.Fail(caseOf("C07", "sizes", b, err), err)
						break sizes
					}
				}
			}
		}
		// 3b'. the first value followed by a long tail (more than 64 KiB of further input of
		// every kind): the traversal is about the first value only
		if e.enumStage("long-tails", "8 first values x 7 tails of 70 KB (spaces then a byte, digits, one string, open brackets of either kind, a second document, garbage) x 3 strategies", true) {
			firsts := []string{`[1,2]`, `{"a":1}`, `[]`, `{}`, `null`, ` [ {"k":[true]} , "s" ] `, `{"a":{"b":[1,2,3]},"c":"x"}`, `[1,2`}
			tails := []string{strings.Repeat(" ", 70000) + "x", "," + strings.Repeat("7", 70000), `"` + strings.Repeat("a", 70000) + `"`, strings.Repeat("[", 70000), strings.Repeat("{", 70000),
				" " + strings.Repeat(`{"k":[1,2,3]} `, 5000), strings.Repeat("\x00\xff", 35000)}
			idx := 0
		tails:
			for _, f := range firsts {
				for _, tl := range tails {
					idx++
					if !e.cfg.Mine(idx) {
						continue
					}
					b := []byte(f + tl)
					r.Begin("long-tail", b)
					err := core.Catch(func() error {
						for _, k := range []byte{'[', '{'} {
							for _, bits := range []uint64{0, ^uint64(0), 0xAAAAAAAAAAAAAAAA} {
								if err := one("long-tail", b, k, bits); err != nil {
									return err
								}
							}
						}
						return nil
					})
					if err != nil {
						r.Fail(caseOf("C07", "long-tail", b, err), err)
						break tails
					}
				}
			}
		}
		// 3c. shared byte-level generators: token runs at every alignment, corruption at chunk
		// boundaries of long documents, pretty-printed depth shapes
		e.feed(feedOpts{counts: 1, streams: true, alignment: true, boundaries: true, boundaryQ: 1, indentQ: 8, indentT: 200, numShapes: 2, strRuns: true, amplify: true, tokenSweepQ: 40}, func(kind string, in []byte) error {
			return eval(kind, in, 0x9E3779B97F4A7C15)
		})
		// 4. deep members at the property's bound: a 10,000-deep document
		if e.enumStage("deep", "containers whose member nests to total depth 9999/10000 in 7 mixtures, all-decline / all-exact / mixed", true) {
		deep:
			for pi, pat := range gen.NestPatterns {
				if !e.cfg.Mine(pi) {
					continue
				}
				for _, d := range []int{9999, 10000} {
					for _, bottom := range []string{"", "1", `"x"`} {
						doc := gen.NestSpec{Depth: d, Pattern: pat, Close: d, Bottom: bottom, Sibling: pi%2 == 1}.Build()
						if !run("deep", doc, 0x2) {
							break deep
						}
					}
				}
			}
		}
	})
}
