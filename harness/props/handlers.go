package props

import (
	"fmt"
	"unsafe"

	"verifharness/ref"

	"github.com/willabides/rjson"
)

// hcall is what a recording handler saw on one call.
type hcall struct {
	key    []byte
	start  int  // offset of data inside the document (by pointer identity), -1 if not a suffix
	suffix bool // data is exactly doc[start:]
}

// recHandler is a handler driven by a strategy function; it records every call.
type recHandler struct {
	doc   []byte
	calls []hcall
	// decide returns what the k-th call answers
	decide func(k int, key, data []byte) (int, error)
	limit  int // livelock guard: more calls than this => stop with errTooManyCalls
	over   bool
}

var errTooManyCalls = fmt.Errorf("harness: handler called more often than the input has bytes")

func (h *recHandler) locate(data []byte) (int, bool) {
	if len(data) == 0 || len(h.doc) == 0 {
		return len(h.doc) - len(data), len(data) == 0
	}
	base := uintptr(unsafe.Pointer(&h.doc[0]))
	dp := uintptr(unsafe.Pointer(&data[0]))
	if dp < base || dp >= base+uintptr(len(h.doc)) {
		return -1, false
	}
	off := int(dp - base)
	return off, off+len(data) == len(h.doc)
}

func (h *recHandler) handle(key, data []byte) (int, error) {
	st, suf := h.locate(data)
	k := len(h.calls)
	h.calls = append(h.calls, hcall{key: key, start: st, suffix: suf})
	if h.limit > 0 && len(h.calls) > h.limit {
		h.over = true
		return 0, errTooManyCalls
	}
	return h.decide(k, key, data)
}

func (h *recHandler) HandleArrayValue(data []byte) (int, error)     { return h.handle(nil, data) }
func (h *recHandler) HandleObjectValue(k, data []byte) (int, error) { return h.handle(k, data) }

// traverse runs the traversal of the given kind ('[' or '{').
func traverse(kind byte, doc []byte, h *recHandler, buf *rjson.Buffer) (int, error) {
	h.doc = doc
	if kind == '[' {
		return rjson.HandleArrayValues(doc, h, buf)
	}
	return rjson.HandleObjectValues(doc, h, buf)
}

// exactEnd is the well-behaved "exact" answer: the reference end of the value at the start
// of data, or 0 (decline) when the member is malformed and no end exists.
func exactEnd(data []byte) int {
	e := ref.Skip(data, 1<<30)
	if e < 0 {
		return 0
	}
	return e
}

// bitStrategy answers call k with the exact end when bit k (mod 64) of bits is set, else 0.
func bitStrategy(bits uint64) func(k int, key, data []byte) (int, error) {
	return func(k int, key, data []byte) (int, error) {
		if bits>>(uint(k)%64)&1 == 1 {
			return exactEnd(data), nil
		}
		return 0, nil
	}
}

// rawDepthOver reports whether the input could be nested deeper than limit: the number of
// opening brackets outside strings (best effort on malformed input) exceeds it.
func rawDepthOver(in []byte, limit int) bool {
	n := 0
	for _, c := range in {
		if c == '[' || c == '{' {
			n++
		}
	}
	if n <= limit {
		return false
	}
	depth, max := 0, 0
	for i := 0; i < len(in); i++ {
		switch in[i] {
		case '"':
			if e := ref.String(in, i); e > 0 {
				i = e - 1
			}
		case '[', '{':
			depth++
			if depth > max {
				max = depth
			}
		case ']', '}':
			if depth > 0 {
				depth--
			}
		}
	}
	return max > limit
}

func bufferConfig(i int64) *rjson.Buffer {
	switch i % 3 {
	case 1:
		return &rjson.Buffer{}
	case 2:
		return primedBuffer()
	}
	return nil
}
