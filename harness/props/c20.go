package props

import (
	"fmt"
	"runtime"
	"strings"

	"verifharness/core"
	"verifharness/ref"

	"github.com/willabides/rjson"
)

func init() { Checks["C20"] = CheckC20 }

// Bound constants (DESIGN section 4, C20): over every prefix of a history
//
//	sum(alloc) <= sum(len(input) * (c20K + c20Kd*D(input))) + c20C * calls
//
// D(input) = deepest nesting level at which a string containing a backslash occurs.
const (
	c20K    = 1024 // bytes per input byte for the generic decoders
	c20KBuf = 80   // bytes per input byte for Valid / SkipValue / SkipValueFast / Handle*Values (they only own a stack)
	c20Kd   = 3
	c20C    = 8 << 10
)

// c20KFor: the functions that only grow a Buffer's stack get a much tighter per-byte
// constant than the generic decoders (measured maximum 20.5 B/B at depth 100 000).
func c20KFor(kind string) int {
	switch kind {
	case "Valid", "SkipValue", "SkipValueFast", "HandleArrayValues", "HandleObjectValues":
		return c20KBuf
	}
	return c20K
}

// C20 step encoding: Kind = function; the document is In when non-empty, otherwise built
// from the shape spec Strs[0] with parameters Ints[2:]; Ints[0] = repeat count (the same
// call made that many times), Ints[1] = handler mode (0 decline, 1 re-entrant SkipValue).
var c20Funcs = []string{"ReadValue", "ReadObject", "ReadArray", "pkg.ReadValue", "pkg.ReadObject", "pkg.ReadArray",
	"Valid", "SkipValue", "SkipValueFast", "HandleArrayValues", "HandleObjectValues", "GC"}

func keys(sb *strings.Builder, n int, val string) {
	for i := 0; i < n; i++ {
		if i > 0 {
			sb.WriteByte(',')
		}
		fmt.Fprintf(sb, `"%d":%s`, i, val)
	}
}

func elems(sb *strings.Builder, n int, val string) {
	for i := 0; i < n; i++ {
		if i > 0 {
			sb.WriteByte(',')
		}
		sb.WriteString(val)
	}
}

// c20Shape builds a size-parameterised document. p = parameters (missing ones are 0).
func c20Shape(family string, p []int64) []byte {
	g := func(i int) int {
		if i < len(p) {
			if p[i] < 0 {
				return 0
			}
			return int(p[i])
		}
		return 0
	}
	var sb strings.Builder
	switch family {
	case "big-then-small": // p: n (size of the big container), m (small siblings), variant bits
		n, m, v := g(0), g(1), g(2)
		outerObj, bigObj, smallObj, bigLast, nested := v&1 != 0, v&2 == 0, v&4 == 0, v&8 != 0, v&16 != 0
		big := func() {
			if bigObj {
				sb.WriteByte('{')
				keys(&sb, n, "0")
				sb.WriteByte('}')
			} else {
				sb.WriteByte('[')
				elems(&sb, n, "0")
				sb.WriteByte(']')
			}
		}
		small := "{}"
		if !smallObj {
			small = "[]"
		}
		if v&32 != 0 {
			small = `{"a":1}`
		}
		if nested {
			sb.WriteString(`{"wrap":[1,`)
		}
		member := 0
		put := func(f func()) {
			if member > 0 {
				sb.WriteByte(',')
			}
			if outerObj {
				fmt.Fprintf(&sb, `"m%d":`, member)
			}
			member++
			f()
		}
		if outerObj {
			sb.WriteByte('{')
		} else {
			sb.WriteByte('[')
		}
		if !bigLast {
			put(big)
		}
		for i := 0; i < m; i++ {
			put(func() { sb.WriteString(small) })
		}
		if bigLast {
			put(big)
		}
		if outerObj {
			sb.WriteByte('}')
		} else {
			sb.WriteByte(']')
		}
		if nested {
			sb.WriteString(`]}`)
		}
	case "alternating": // p: n, m — big and small containers alternate
		n, m := g(0), g(1)
		sb.WriteByte('[')
		for i := 0; i < m; i++ {
			if i > 0 {
				sb.WriteByte(',')
			}
			if i%2 == 0 && i < 8 {
				sb.WriteByte('{')
				keys(&sb, n, "[]")
				sb.WriteByte('}')
			} else {
				sb.WriteString(`{"x":[]}`)
			}
		}
		sb.WriteByte(']')
	case "wide-flat": // p: n, kind (0 array of numbers, 1 object, 2 array of strings, 3 array of escaped strings)
		n, k := g(0), g(1)
		switch k % 4 {
		case 0:
			sb.WriteByte('[')
			elems(&sb, n, "12345.5")
			sb.WriteByte(']')
		case 1:
			sb.WriteByte('{')
			keys(&sb, n, `"v"`)
			sb.WriteByte('}')
		case 2:
			sb.WriteByte('[')
			elems(&sb, n, `"some plain string"`)
			sb.WriteByte(']')
		default:
			sb.WriteByte('[')
			elems(&sb, n, `"esc\n\té"`)
			sb.WriteByte(']')
		}
	case "deep": // p: depth, pattern index
		return nestDoc(g(0), g(1), "1")
	case "escapes-every-level": // p: depth — ["\n",["\n",[ ... ]]]
		d := g(0)
		for i := 0; i < d; i++ {
			sb.WriteString(`["\n",`)
		}
		sb.WriteString("0")
		for i := 0; i < d; i++ {
			sb.WriteByte(']')
		}
	case "escaped-keys": // p: n
		n := g(0)
		sb.WriteByte('{')
		for i := 0; i < n; i++ {
			if i > 0 {
				sb.WriteByte(',')
			}
			fmt.Fprintf(&sb, `"k\n%dA":{"in\tner":%d}`, i, i)
		}
		sb.WriteByte('}')
	case "escape-run": // p: n, kind — ONE string value holding a long run of escapes
		n, k := g(0), g(1)
		unit := []string{`\n`, `\u00e9`, `\ud83d\ude00`, `\"`, `\\`, "é", `a\u0041`, `\ud800`}[k%8]
		pre := []string{"", `\"`, `x\"y`, `\n`, "plain text "}[(k/8)%5]
		sb.WriteString(`{"k":["`)
		sb.WriteString(pre)
		for i := 0; i < n; i++ {
			sb.WriteString(unit)
		}
		sb.WriteString(`",1]}`)
	case "escaped-siblings": // p: n siblings, pad bytes per sibling, variant bits — many sibling containers, each holding one escaped string, in a document of n*(pad+~30) bytes
		n, pad, v := g(0), g(1), g(2)
		sibObj, inKey, outerObj := v&1 == 0, v&2 != 0, v&4 != 0
		padding := strings.Repeat("p", pad)
		if outerObj {
			sb.WriteByte('{')
		} else {
			sb.WriteByte('[')
		}
		for i := 0; i < n; i++ {
			if i > 0 {
				sb.WriteByte(',')
			}
			if outerObj {
				fmt.Fprintf(&sb, `"m%d":`, i)
			}
			// v>>3 & 3: the escaped string sits that many container levels below the sibling
			esc, escKey := `"x\ny"`, `{"a\nb":1}`
			for l := 0; l < v>>3&3; l++ {
				if (l+v)%2 == 0 {
					esc, escKey = `{"d":`+esc+`}`, `{"d":`+escKey+`}`
				} else {
					esc, escKey = `[`+esc+`]`, `[`+escKey+`]`
				}
			}
			switch {
			case sibObj && inKey && v>>3&3 == 0:
				fmt.Fprintf(&sb, `{"a\nb":1,"p":"%s"}`, padding)
			case sibObj && inKey:
				fmt.Fprintf(&sb, `{"w":%s,"p":"%s"}`, escKey, padding)
			case sibObj:
				fmt.Fprintf(&sb, `{"a":%s,"p":"%s"}`, esc, padding)
			default:
				fmt.Fprintf(&sb, `[%s,"%s"]`, esc, padding)
			}
		}
		if outerObj {
			sb.WriteByte('}')
		} else {
			sb.WriteByte(']')
		}
	case "ragged": // p: rows, long, short, variant - rows alternate between `long` and `short` members (arrays of numbers, or objects)
		rows, long, short, v := g(0), g(1), g(2), g(3)
		sb.WriteByte('[')
		for i := 0; i < rows; i++ {
			if i > 0 {
				sb.WriteByte(',')
			}
			n := long
			if i%2 == 1 || (v&2 != 0 && i%3 != 0) {
				n = short
			}
			if v&4 != 0 {
				n = 1 + (i*long)/rows // rows that keep growing
			}
			if v&1 == 0 {
				sb.WriteByte('[')
				elems(&sb, n, "7")
				sb.WriteByte(']')
			} else {
				sb.WriteByte('{')
				keys(&sb, n, "7")
				sb.WriteByte('}')
			}
		}
		sb.WriteByte(']')
	case "small": // p: which
		smalls := []string{`{"a":{},"b":{},"c":{},"d":{},"e":{}}`, `[1]`, `null`, `[1,`, `{"a":`, `[1]x`, `{}`, `[]`, `[[],[],[]]`, `"str"`, `1`, ``, `{"a":[{}]}`, `[{"a":1}]`, `[1e400]`, `{"a"}`}
		return []byte(smalls[g(0)%len(smalls)])
	case "truncated-big": // p: n, kind — a big container cut off before its end (a failing call)
		n, k := g(0), g(1)
		if k%2 == 0 {
			sb.WriteByte('[')
			elems(&sb, n, "0")
			sb.WriteByte(',')
		} else {
			sb.WriteByte('{')
			keys(&sb, n, "0")
			sb.WriteByte(',')
		}
	default:
		panic("unknown C20 shape " + family)
	}
	return []byte(sb.String())
}

func nestDoc(depth, pat int, bottom string) []byte {
	pats := []string{"a", "o", "ao", "aao"}
	var sb strings.Builder
	p := pats[pat%len(pats)]
	sib := pat%8 >= 4 // deep member preceded by a scalar sibling at every level
	kinds := make([]byte, depth)
	for i := 0; i < depth; i++ {
		kinds[i] = p[i%len(p)]
		switch {
		case kinds[i] == 'o' && sib:
			sb.WriteString(`{"s":1,"k":`)
		case kinds[i] == 'o':
			sb.WriteString(`{"k":`)
		case sib:
			sb.WriteString(`[1,`)
		default:
			sb.WriteByte('[')
		}
	}
	sb.WriteString(bottom)
	for i := depth - 1; i >= 0; i-- {
		if kinds[i] == 'o' {
			sb.WriteByte('}')
		} else {
			sb.WriteByte(']')
		}
	}
	return []byte(sb.String())
}

// escapeDepth: the deepest nesting level at which a string containing a backslash occurs
// (keys included: an over-approximation of the D of the design, which only loosens the bound).
func escapeDepth(d []byte) int {
	depth, max := 0, 0
	for i := 0; i < len(d); i++ {
		switch d[i] {
		case '"':
			e := ref.String(d, i)
			if e < 0 {
				return max
			}
			for _, c := range d[i+1 : e-1] {
				if c == '\\' {
					if depth > max {
						max = depth
					}
					break
				}
			}
			i = e - 1
		case '[', '{':
			depth++
		case ']', '}':
			if depth > 0 {
				depth--
			}
		}
	}
	return max
}

type c20Runner struct {
	vr     rjson.ValueReader
	buf    rjson.Buffer
	h      c20Handler
	alloc  uint64 // cumulative bytes allocated by the calls
	bound  uint64 // cumulative bound
	calls  int
	inLen  uint64
	maxUse float64
	// calibration aids: the largest allocation of a call on a tiny (<= 16 byte) input, and the
	// largest bytes-allocated-per-input-byte of a call on a >= 4 KiB input
	maxTinyCall   uint64
	maxBigPerByte float64
	// non-triviality bookkeeping
	firstLen  int
	laterLens []int
	sawShape  bool
}

type c20Handler struct {
	buf       *rjson.Buffer
	reentrant bool
}

func (h *c20Handler) HandleArrayValue(d []byte) (int, error) {
	if h.reentrant {
		return rjson.SkipValue(d, h.buf)
	}
	return 0, nil
}
func (h *c20Handler) HandleObjectValue(k, d []byte) (int, error) { return h.HandleArrayValue(d) }

func c20Doc(step *core.Case) []byte {
	if len(step.In) > 0 || len(step.Strs) == 0 {
		return []byte(step.In)
	}
	var p []int64
	if len(step.Ints) > 2 {
		p = step.Ints[2:]
	}
	return c20Shape(step.Strs[0], p)
}

var memStats runtime.MemStats

func totalAlloc() uint64 {
	runtime.ReadMemStats(&memStats)
	return memStats.TotalAlloc
}

func (r *c20Runner) call(kind string, doc []byte) {
	switch kind {
	case "ReadValue":
		r.vr.ReadValue(doc)
	case "ReadObject":
		r.vr.ReadObject(doc)
	case "ReadArray":
		r.vr.ReadArray(doc)
	case "pkg.ReadValue":
		rjson.ReadValue(doc)
	case "pkg.ReadObject":
		rjson.ReadObject(doc)
	case "pkg.ReadArray":
		rjson.ReadArray(doc)
	case "Valid":
		rjson.Valid(doc, &r.buf)
	case "SkipValue":
		rjson.SkipValue(doc, &r.buf)
	case "SkipValueFast":
		rjson.SkipValueFast(doc, &r.buf)
	case "HandleArrayValues":
		rjson.HandleArrayValues(doc, &r.h, &r.buf)
	case "HandleObjectValues":
		rjson.HandleObjectValues(doc, &r.h, &r.buf)
	default:
		panic("unknown C20 step kind " + kind)
	}
}

// step executes one (possibly repeated) call and checks the bound after every repetition.
func (r *c20Runner) step(step *core.Case) error {
	if step.Kind == "GC" {
		runtime.GC()
		return nil
	}
	doc := c20Doc(step)
	repeat := 1
	if len(step.Ints) > 0 && step.Ints[0] > 1 {
		repeat = int(step.Ints[0])
	}
	r.h.buf = &r.buf
	r.h.reentrant = len(step.Ints) > 1 && step.Ints[1] == 1
	perCall := uint64(len(doc))*uint64(c20KFor(step.Kind)+c20Kd*escapeDepth(doc)) + c20C
	for i := 0; i < repeat; i++ {
		before := totalAlloc()
		perr := core.Catch(func() error { r.call(step.Kind, doc); return nil })
		after := totalAlloc()
		if perr != nil {
			return nil // totality is C10's subject
		}
		r.alloc += after - before
		if len(doc) <= 16 && r.calls > 0 && after-before > r.maxTinyCall {
			r.maxTinyCall = after - before
		}
		if len(doc) >= 4096 {
			if x := float64(after-before) / float64(len(doc)); x > r.maxBigPerByte {
				r.maxBigPerByte = x
			}
		}
		r.bound += perCall
		r.calls++
		r.inLen += uint64(len(doc))
		if r.calls == 1 {
			r.firstLen = len(doc)
		} else if len(r.laterLens) < 4096 {
			r.laterLens = append(r.laterLens, len(doc))
		}
		use := float64(r.alloc) / float64(r.bound)
		if use > r.maxUse {
			r.maxUse = use
		}
		if r.alloc > r.bound {
			return fmt.Errorf("after %d calls on %d input bytes in total the calls have allocated %d bytes; the linear bound (%d|%d)*len + %d*len*D + %d per call is %d bytes (this call: %s on a %d-byte document allocated %d bytes, repetition %d)",
				r.calls, r.inLen, r.alloc, c20K, c20KBuf, c20Kd, c20C, r.bound, step.Kind, len(doc), after-before, i)
		}
	}
	return nil
}

func (r *c20Runner) nontrivial() bool {
	if r.inLen < 4096 {
		return false
	}
	if r.sawShape {
		return true
	}
	if r.calls >= 8 && len(r.laterLens) > 0 {
		// first call >= 100x the median later one
		ls := append([]int(nil), r.laterLens...)
		for i := 1; i < len(ls); i++ {
			for j := i; j > 0 && ls[j] < ls[j-1]; j-- {
				ls[j], ls[j-1] = ls[j-1], ls[j]
			}
			if i > 64 {
				break
			}
		}
		med := ls[minInt(len(ls), 64)/2]
		return r.firstLen >= 100*(med+1)
	}
	return false
}

// c20Deterministic pins what the allocation of a history depends on: one P (sync.Pool
// Put/Get always meet), collections only where the history says so.
func c20Deterministic() func() {
	restore := deterministicGC()
	old := runtime.GOMAXPROCS(1)
	return func() {
		runtime.GOMAXPROCS(old)
		restore()
	}
}

// CheckC20 replays a history on one fresh ValueReader and one fresh Buffer.
func CheckC20(c *core.Case) error {
	defer c20Deterministic()()
	var r c20Runner
	for i := range c.Steps {
		if err := r.step(&c.Steps[i]); err != nil {
			return fmt.Errorf("step %d: %w", i, err)
		}
	}
	return nil
}
