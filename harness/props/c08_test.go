package props

import (
	"testing"

	"verifharness/core"
	"verifharness/gen"

	"pgregory.net/rapid"
)

func TestC08(t *testing.T) {
	runProp(t, "C08", func(e *env) {
		r := e.r
		one := func(kind string, in []byte, vec []int64, full bool) error {
			info, used, err := c08Check(in, vec, full, kind == "program")
			key := core.HashInts(core.Hash(in), append([]int64{b2i(full)}, vec...)...)
			r.Eval(key, info.nontrivial)
			switch {
			case !info.inDomain:
				r.Label("out-of-domain(depth)")
			case info.directOK:
				r.Label("direct.ok")
			default:
				r.Label("direct.fails")
			}
			for k, n := range used {
				r.LabelN("choice."+k, int64(n))
			}
			if info.nontrivial && r.WantSample(key) {
				r.SampleInput(key, kind, in, "full", full, "choice_vector", vec)
			}
			if err != nil {
				return &caseErr{&core.Case{Prop: "C08", Kind: kind, In: append([]byte(nil), in...), Ints: append([]int64{b2i(full)}, vec...)}, err}
			}
			return nil
		}
		// fixed vectors: every single reader choice held constant, plus mixed patterns
		fixed := [][]int64{{0}, {1}, {2}, {3}, {3, 1, 4, 1, 5, 9, 2, 6}, {2, 7, 1, 8, 2, 8, 1, 8}}
		evalFixed := func(kind string, in []byte) error {
			for _, v := range fixed {
				for _, full := range []bool{true, false} {
					if err := one(kind, in, v, full); err != nil {
						return err
					}
				}
			}
			return nil
		}
		// 1. rapid documents x rapid decoder programs
		e.rapidStage("programs", "rapid", e.cfg.N(50000, 4000000), func(rt *rapid.T) {
			p := gen.AnyProfile(rt)
			b := gen.DocTrail(rt, p)
			k := rapid.IntRange(0, 3).Draw(rt, "nmut")
			if k == 3 {
				k = 0
			}
			for i := 0; i < k; i++ {
				b = gen.Mutate(rt, b)
			}
			n := rapid.IntRange(1, 24).Draw(rt, "veclen")
			vec := make([]int64, n)
			for i := range vec {
				vec[i] = int64(rapid.IntRange(0, 59).Draw(rt, "choice"))
			}
			r.Begin("program", b)
			err := core.Catch(func() error {
				if err := one("program", b, vec, true); err != nil {
					return err
				}
				return one("program", b, vec, false)
			})
			if err != nil {
				failRapid(rt, r, caseOf("C08", "program", b, err), err)
			}
		})
		// 2. shared byte-level generators x fixed programs (offsets after every value x next byte)
		e.feed(feedOpts{counts: 1, streams: true, shortlexQ: 3, shortlexT: 5, sweepQ: 25, sweepT: 3000, sweepMaxLen: 64, nestQ: 20, nestT: 300, indentQ: 6, indentT: 100, numShapes: 2, strRuns: true, tokenSweepQ: 20, templateSweep: true,
			nestDepths: []int{1, 2, 3, 5, 64, 9999, 10000}, noDepthSites: true, nextByte: true, alignment: true}, evalFixed)
	})
}
