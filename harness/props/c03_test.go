package props

import (
	"fmt"
	"strings"
	"testing"

	"verifharness/core"
	"verifharness/gen"

	"pgregory.net/rapid"
)

func TestC03(t *testing.T) {
	runProp(t, "C03", func(e *env) {
		e.coldStage(3, 4, 14, 15, 28, 29)
		r := e.r
		eval := func(kind string, in []byte) error {
			info, err := c03Check(in, nil)
			if err == errOracle {
				r.Inconclusive("reference tree and encoding/json disagree", &core.Case{Prop: "C03", Kind: kind, In: append([]byte(nil), in...)})
				return nil
			}
			key := core.Hash(in)
			r.Eval(key, info.nontrivial)
			switch {
			case !info.wantOK:
				r.Label("expect.error")
			case info.invalidUTF:
				r.Label("expect.ok.invalid-utf8")
			default:
				r.Label("expect.ok")
			}
			if info.stats.Depth >= 3 {
				r.Label("depth>=3")
			}
			if info.stats.MaxMembers >= 8 {
				r.Label("members>=8")
			}
			if info.nontrivial && r.WantSample(key) {
				r.SampleInput(key, kind, in, "depth", info.stats.Depth, "max_members", info.stats.MaxMembers)
			}
			return err
		}
		run := func(kind string, in []byte) bool {
			r.Begin(kind, in)
			if err := core.Catch(func() error { return eval(kind, in) }); err != nil {
				r.Fail(caseOf("C03", kind, in, err), err)
				return false
			}
			return true
		}
		// 1. hand-picked tree shapes: duplicates (raw-equal, escaped-equal, earlier value a
		// container), empties everywhere, typed entry points on every first token
		if e.enumStage("shapes", "duplicate / escaped-duplicate keys, empty containers at every position, null/scalars for the typed entry points, overflowing numbers x prefixes x suffixes", true) {
			docs := []string{`{"a":1,"a":2}`, `{"a":1,"\u0061":2}`, `{"\u0061":1,"a":2}`, `{"a":{"x":1},"a":[2]}`, `{"a":[1,2,3],"a":null}`, `{"a":{"b":1},"a":{"c":2}}`,
				`{"":1,"":2}`, `{"\ud800":1,"\udc00":2}`, `{"é":1,"\u00e9":2,"\u00E9":3}`, `{"a\n":1,"a\u000a":2}`, `{"\\":1,"\u005c":2}`,
				`[]`, `{}`, `[[]]`, `[{}]`, `{"a":[]}`, `{"a":{}}`, `[[],[]]`, `[{},{}]`, `[[],{},[],{}]`, `{"a":[],"b":{},"c":[],"d":{}}`, `[[[]],[[]]]`, `[1,[],2]`, `[[],1,{}]`,
				`null`, `true`, `false`, `0`, `-0`, `"s"`, `""`, `1e400`, `-1e400`, `[1e400]`, `{"a":1e400}`, `[1,2,1e309]`, `[1.7976931348623159e308]`, `[1e-400]`, `[-0]`, `[-0.0]`, `[0e5]`,
				`[null]`, `{"a":null}`, `[null,null]`, `["\ud83d\ude00","\ud83d","\ude00"]`, `["\xff","\xc3\x28"]`, `{"\xff":1}`, `{"\xff":1,"\xfe":2}`, `{"\xff":1,"�":2}`,
				`[1,2,3,4,5,6,7,8,9,10]`, `{"a":1,"b":2,"c":3,"d":4,"e":5,"f":6,"g":7,"h":8,"i":9}`, `[[1,2,3,4,5,6,7,8],[1]]`, `[[1],[1,2,3,4,5,6,7,8]]`,
				`[{"a":1,"b":2,"c":3,"d":4,"e":5,"f":6,"g":7,"h":8,"i":9},{},{"z":1}]`, `[{},{"a":1,"b":2,"c":3,"d":4,"e":5,"f":6,"g":7,"h":8,"i":9},{}]`,
				`{"k":[{"a":1,"b":2,"c":3,"d":4,"e":5,"f":6,"g":7,"h":8,"i":9}],"l":[{}]}`, `[[[[1,2]]],[[[3]]]]`, `{"a":{"a":{"a":{"a":1}}}}`}
		shapes:
			for di, d := range docs {
				if !e.cfg.Mine(di) {
					continue
				}
				for _, pre := range []string{"", " ", "\n\t"} {
					for _, suf := range []string{"", " ", "x", ",", "]", "}", "1", "\""} {
						if !run("shape", []byte(pre+d+suf)) {
							break shapes
						}
					}
				}
			}
		}
		// 2. rapid documents of every profile, with 0-2 mutations
		e.rapidStage("docs", "rapid", e.cfg.N(60000, 4000000), func(rt *rapid.T) {
			p := gen.AnyProfile(rt)
			b := gen.DocTrail(rt, p)
			k := rapid.IntRange(0, 3).Draw(rt, "nmut")
			if k == 3 {
				k = 0
			}
			for i := 0; i < k; i++ {
				b = gen.Mutate(rt, b)
			}
			r.Label(fmt.Sprintf("mutations=%d", k))
			r.Begin("doc", b)
			if err := core.Catch(func() error { return eval("doc", b) }); err != nil {
				failRapid(rt, r, caseOf("C03", "doc", b, err), err)
			}
		})
		// 2b. key twins: two keys of one object (and of two sibling objects) where the decoded
		// text of one equals the raw spelling of the other - every (base, escape, tail) of the
		// generator's twin family, both orders (key caches / interning keyed on raw bytes)
		if e.enumStage("key-twins", "8 bases x 10 escapes x 4 tails: escaped-backslash spelling and escape spelling as keys of one object and of two sibling objects, both orders", true) {
			idx := 0
		twins:
			for _, base := range []string{"", "a", "k", "p:", "dir", "x/y", "é", `q\\`} {
				for _, esc := range []string{"n", "t", "b", "f", "r", "/", "u0041", "u00e9", `ud83d\ude00`, "uDC00"} {
					for _, tail := range []string{"", "z", "ew", "1"} {
						idx++
						if !e.cfg.Mine(idx) {
							continue
						}
						k1 := `"` + base + `\\` + esc + tail + `"` // decodes to a literal backslash + letters
						k2 := `"` + base + `\` + esc + tail + `"`  // the escape itself
						for _, doc := range []string{`{` + k1 + `:1,` + k2 + `:2}`, `{` + k2 + `:1,` + k1 + `:2}`, `[{` + k1 + `:1},{` + k2 + `:2}]`, `[{` + k2 + `:{}},{` + k1 + `:[]}]`,
							`{"o":{` + k1 + `:1},"p":{` + k2 + `:2},"q":{` + k1 + `:3}}`} {
							if !run("key-twins", []byte(doc)) {
								break twins
							}
						}
					}
				}
			}
		}
		// 3. sibling-size patterns and wide containers (size prediction, child-reader pool)
		e.rapidStage("siblings", "rapid", e.cfg.N(1500, 100000), func(rt *rapid.T) {
			var sb strings.Builder
			outerObj := rapid.Bool().Draw(rt, "outerObj")
			n := rapid.IntRange(1, 12).Draw(rt, "siblings")
			if outerObj {
				sb.WriteByte('{')
			} else {
				sb.WriteByte('[')
			}
			for i := 0; i < n; i++ {
				if i > 0 {
					sb.WriteByte(',')
				}
				if outerObj {
					fmt.Fprintf(&sb, `"m%d":`, rapid.IntRange(0, n).Draw(rt, "keyid"))
				}
				size := []int{0, 0, 1, 2, 3, 7, 8, 9, 17, 64, 300, 1500}[rapid.IntRange(0, 11).Draw(rt, "size")]
				switch rapid.IntRange(0, 3).Draw(rt, "memberkind") {
				case 0:
					sb.WriteByte('[')
					for j := 0; j < size; j++ {
						if j > 0 {
							sb.WriteByte(',')
						}
						fmt.Fprintf(&sb, "%d", j)
					}
					sb.WriteByte(']')
				case 1:
					sb.WriteByte('{')
					for j := 0; j < size; j++ {
						if j > 0 {
							sb.WriteByte(',')
						}
						fmt.Fprintf(&sb, `"k%d":%d`, j%(size/2+1)*rapid.IntRange(1, 2).Draw(rt, "dupstride"), j)
					}
					sb.WriteByte('}')
				case 2:
					sb.WriteString(`[{"a":[1,2,3],"b":{}},[[]]]`)
				default:
					sb.WriteString(gen.Nums[rapid.IntRange(0, len(gen.Nums)-1).Draw(rt, "num")])
				}
			}
			if outerObj {
				sb.WriteByte('}')
			} else {
				sb.WriteByte(']')
			}
			b := []byte(sb.String())
			r.Begin("siblings", b)
			if err := core.Catch(func() error { return eval("siblings", b) }); err != nil {
				failRapid(rt, r, caseOf("C03", "siblings", b, err), err)
			}
		})
		// 3b. member counts round every power of two and round decimal size (per-reader chunks,
		// size hints and growth steps have thresholds there), flat and two levels deep
		if e.enumStage("sizes", "arrays and objects with n members for n in 0..40 and 2^k-1, 2^k, 2^k+1 up to 4097, 1000, 10000, 65535..65537 (thorough also 100000, 2^20-1..2^20+1): flat scalars, n small arrays, n small objects, and a small-big-small sibling pattern", true) {
			var ns []int
			for n := 0; n <= 40; n++ {
				ns = append(ns, n)
			}
			for k := 6; k <= 12; k++ {
				ns = append(ns, 1<<uint(k)-1, 1<<uint(k), 1<<uint(k)+1)
			}
			ns = append(ns, 100, 1000, 10000, 1<<16-1, 1<<16, 1<<16+1)
			if e.cfg.Thorough() {
				ns = append(ns, 100000, 1<<20-1, 1<<20, 1<<20+1)
			}
			var sb strings.Builder
			idx := 0
		sizes:
			for _, n := range ns {
				for variant := 0; variant < 6; variant++ {
					idx++
					if !e.cfg.Mine(idx) {
						continue
					}
					sb.Reset()
					switch variant {
					case 0: // flat array of numbers
						sb.WriteByte('[')
						for i := 0; i < n; i++ {
							if i > 0 {
								sb.WriteByte(',')
							}
							fmt.Fprintf(&sb, "%d", i)
						}
						sb.WriteByte(']')
					case 1: // flat object
						sb.WriteByte('{')
						for i := 0; i < n; i++ {
							if i > 0 {
								sb.WriteByte(',')
							}
							fmt.Fprintf(&sb, `"k%d":"v%d"`, i, i)
						}
						sb.WriteByte('}')
					case 2: // n small arrays
						sb.WriteByte('[')
						for i := 0; i < n; i++ {
							if i > 0 {
								sb.WriteByte(',')
							}
							fmt.Fprintf(&sb, `[%d,"x\t%d"]`, i, i)
						}
						sb.WriteByte(']')
					case 3: // n small objects with an escaped key
						sb.WriteByte('[')
						for i := 0; i < n; i++ {
							if i > 0 {
								sb.WriteByte(',')
							}
							fmt.Fprintf(&sb, `{"a\n":%d,"b":[%d]}`, i, i)
						}
						sb.WriteByte(']')
					case 4: // small, big (n), small siblings in an object
						sb.WriteString(`{"s":[1],"big":[`)
						for i := 0; i < n; i++ {
							if i > 0 {
								sb.WriteByte(',')
							}
							sb.WriteString("null")
						}
						sb.WriteString(`],"t":[2,3],"u":{"big":{`)
						for i := 0; i < n; i++ {
							if i > 0 {
								sb.WriteByte(',')
							}
							fmt.Fprintf(&sb, `"%d":true`, i)
						}
						sb.WriteString(`},"v":{}}}`)
					default: // a string of n bytes with an escape at the end, in an array
						sb.WriteString(`["`)
						for i := 0; i < n; i++ {
							sb.WriteByte(byte('a' + i%26))
						}
						sb.WriteString(`\u00e9",1]`)
					}
					if !run("sizes", []byte(sb.String())) {
						break sizes
					}
				}
			}
		}
		// 4. shared byte-level generators (exactly-when direction, depth limit)
		e.feed(feedOpts{counts: 1, streams: true, shortlexQ: 3, shortlexT: 5, sweepQ: 150, sweepT: 12000, sweepMaxLen: 72, nestQ: 40, nestT: 800, indentQ: 10, indentT: 300, numShapes: 2, strRuns: true, tokenSweepQ: 30, templateSweep: true, amplify: true,
			nestDepths: []int{1, 2, 3, 5, 64, 9999, 10000, 10001, 10002}, depthSitesLite: true, nextByte: true, alignment: true, boundaries: true, boundaryQ: 1}, eval)
		// 3c. sibling ladders: one parent holding 3..6 sibling containers whose sizes are fractions
		// of a big first sibling (sibling containers of one parent are decoded by one pooled child
		// reader: what it keeps of the big one - a backing array, a slab, a hint - must not end up
		// shared between the later siblings)
		if e.enumStage("sibling-ladders", "parents (array, or object \"rows\") of 3..6 sibling arrays / objects: a big first sibling (100, 300, 5000, 20000, 70000 members) then siblings of 0, 3, 1/100 .. 2x its size, 24 (thorough 1500) pseudo-random ladders per big size", true) {
			per := e.cfg.Pick(24, 1500)
			idx := 0
			state := uint64(0x5151515151)
		ladders:
			for _, big := range []int64{100, 300, 5000, 20000, 70000} {
				n := per
				if big == 20000 && !e.cfg.Thorough() {
					n = per / 6
				}
				for k := 0; k < n; k++ {
					idx++
					state = splitmix(state)
					if !e.cfg.Mine(idx) {
						continue
					}
					x := state
					draw := func(n uint64) uint64 { v := x % n; x = splitmix(x); return v }
					variant := int64(0)
					if big <= 5000 {
						variant = int64(draw(2))
					}
					ints := []int64{variant, int64(k) * 31, big}
					for n := 2 + draw(4); n > 0; n-- {
						ints = append(ints, []int64{0, 3, big / 100, big / 10, big / 5, big/4 - 1, big/4 + 1, big / 3, big / 2, big/2 + 1, big * 6 / 10, big * 9 / 10, big, big + 1, 64, 4097, big * 2}[draw(17)])
					}
					kind := []string{"ReadValue", "ReadObject", "ReadArray"}[draw(3)]
					doc, _ := c15SizedDoc(kind, ints)
					if !run("sibling-ladders", doc) {
						break ladders
					}
				}
			}
		}
	})
}
