package props

import (
	"fmt"
	"math"

	"verifharness/core"
	"verifharness/ref"

	"github.com/willabides/rjson"
)

func init() { Checks["C12"] = CheckC12 }

// decoder is one Decode function paired with its reader, over a pool of initial targets.
// run returns the outcome class ("stored", "null", "error") or a violation.
type decoder struct {
	name     string
	ninit    int
	nderived int // initial targets derived from the input itself: init = c12Derived + k
	run      func(in []byte, init int) (string, bool, error)
}

// c12Derived is the first index of the input-derived initial targets.
const c12Derived = 1000

func mkDecoder[T any](name string, inits []T, same func(a, b T) bool, read func([]byte) (T, int, error), dec func([]byte, *T) (int, error), derive ...func(in []byte, k int) (T, bool)) decoder {
	nd := 0
	if len(derive) > 0 {
		nd = 6
	}
	return decoder{name: name, ninit: len(inits), nderived: nd, run: func(in []byte, init int) (string, bool, error) {
		v0 := inits[init%len(inits)]
		if init >= c12Derived && len(derive) > 0 {
			d, ok := derive[0](in, init-c12Derived)
			if !ok {
				return "no-derived-target", false, nil
			}
			v0 = d
		}
		var zero T
		nz := !same(v0, zero)
		rv, rp, rerr := read(in)
		v := v0
		p, err := dec(in, &v)
		i := ref.SkipWS(in, 0)
		switch {
		case rerr == nil:
			if err != nil || p != rp || !same(v, rv) {
				return "stored", nz, fmt.Errorf("%s: reader gives (%v, %d, nil) but Decode gives p=%d err=%v target=%v (initial %v)", name, rv, rp, p, err, v, v0)
			}
			return "stored", nz, nil
		case hasLit(in, i, "null"):
			if err != nil || p != i+4 || !same(v, v0) {
				return "null", nz, fmt.Errorf("%s on input beginning with null: p=%d err=%v target=%v; want p=%d, nil error, target unchanged (%v)", name, p, err, v, i+4, v0)
			}
			return "null", nz, nil
		default:
			if err == nil {
				return "error", nz, fmt.Errorf("%s: reader fails (%v) and input does not begin with null, but Decode returned nil error (p=%d target=%v)", name, rerr, p, v)
			}
			if !same(v, v0) {
				return "error", nz, fmt.Errorf("%s: Decode failed (%v) but changed the target from %v to %v", name, err, v0, v)
			}
			return "error", nz, nil
		}
	}}
}

func eq[T comparable](a, b T) bool { return a == b }

var scratchConfigs = []func() *[]byte{
	func() *[]byte { return nil },
	func() *[]byte { b := []byte{}; return &b },
	func() *[]byte { b := []byte("dirty scratch contents \\ \" 0123456789"); return &b },
	func() *[]byte { b := make([]byte, 3, 4); copy(b, "xyz"); return &b },
}

var c12Decoders = []decoder{
	mkDecoder("DecodeBool", []bool{true, false}, eq[bool], rjson.ReadBool, rjson.DecodeBool),
	mkDecoder("DecodeFloat64", []float64{1.5, -2.25e300, math.Copysign(0, -1), 5e-324, math.Inf(1)},
		func(a, b float64) bool { return math.Float64bits(a) == math.Float64bits(b) }, rjson.ReadFloat64, rjson.DecodeFloat64),
	mkDecoder("DecodeInt64", []int64{-7, math.MaxInt64, math.MinInt64, 42}, eq[int64], rjson.ReadInt64, rjson.DecodeInt64),
	mkDecoder("DecodeInt32", []int32{-7, math.MaxInt32, math.MinInt32, 42}, eq[int32], rjson.ReadInt32, rjson.DecodeInt32),
	mkDecoder("DecodeInt", []int{-7, math.MaxInt, math.MinInt, 42}, eq[int], rjson.ReadInt, rjson.DecodeInt),
	mkDecoder("DecodeUint64", []uint64{7, math.MaxUint64, 1 << 63, 42}, eq[uint64], rjson.ReadUint64, rjson.DecodeUint64),
	mkDecoder("DecodeUint32", []uint32{7, math.MaxUint32, 1 << 31, 42}, eq[uint32], rjson.ReadUint32, rjson.DecodeUint32),
	mkDecoder("DecodeUint", []uint{7, math.MaxUint, 1 << 63, 42}, eq[uint], rjson.ReadUint, rjson.DecodeUint),
}

func init() {
	inits := []string{"initial", "\xff\x00", "null", "x"}
	for si := range scratchConfigs {
		si := si
		c12Decoders = append(c12Decoders, mkDecoder(fmt.Sprintf("DecodeString/scratch%d", si), inits, eq[string],
			func(in []byte) (string, int, error) { return rjson.ReadString(in, nil) },
			func(in []byte, v *string) (int, error) { return rjson.DecodeString(in, v, scratchConfigs[si]()) },
			c12StringTargets))
	}
}

// c12StringTargets: initial targets that already look like the input. k = 0..3: the raw bytes
// between the opening quote and the (k+1)-th later quote; 4: the whole token with its quotes;
// 5: what ReadString returns.
func c12StringTargets(in []byte, k int) (string, bool) {
	i := ref.SkipWS(in, 0)
	if i >= len(in) || in[i] != '"' {
		return "", false
	}
	switch k {
	case 4:
		if e := ref.String(in, i); e > 0 {
			return string(in[i:e]), true
		}
		return "", false
	case 5:
		s, _, err := rjson.ReadString(in, nil)
		return cloneString(s), err == nil
	}
	seen := 0
	for j := i + 1; j < len(in); j++ {
		if in[j] == '"' {
			if seen == k {
				return string(in[i+1 : j]), true
			}
			seen++
		}
	}
	return "", false
}

func cloneString(s string) string { return string(append([]byte(nil), s...)) }

// checkC12Sequence replays a DecodeString history on one persistent target and scratch.
func checkC12Sequence(c *core.Case) error {
	target := "seed value"
	expect := cloneString(target)
	capacity := 0
	if len(c.Ints) > 0 {
		capacity = int(c.Ints[0])
	}
	scratch := make([]byte, 0, capacity)
	for i := range c.Steps {
		b := []byte(c.Steps[i].In)
		want, wp, werr := rjson.ReadString(append([]byte(nil), b...), nil)
		p, err := rjson.DecodeString(b, &target, &scratch)
		i0 := ref.SkipWS(b, 0)
		switch {
		case werr == nil:
			if err != nil || p != wp || target != want {
				return fmt.Errorf("call %d: ReadString gives (%q, %d) but DecodeString gives p=%d err=%v target=%q", i, want, wp, p, err, target)
			}
			expect = cloneString(want)
		case hasLit(b, i0, "null"):
			if err != nil || p != i0+4 || target != expect {
				return fmt.Errorf("call %d on null: p=%d err=%v target=%q; want target unchanged %q", i, p, err, target, expect)
			}
		default:
			if err == nil {
				return fmt.Errorf("call %d: DecodeString accepted %q", i, b)
			}
			if target != expect {
				return fmt.Errorf("call %d: DecodeString failed (%v) but the target changed from %q to %q", i, err, expect, target)
			}
		}
	}
	return nil
}

// CheckC12: Ints = [decoder index, initial-target index]; Kind "sequence": a DecodeString history.
func CheckC12(c *core.Case) error {
	if c.Kind == "sequence" {
		return checkC12Sequence(c)
	}
	if len(c.Ints) < 2 {
		return fmt.Errorf("bad case: need ints [decoder, init]")
	}
	_, _, err := c12Decoders[int(c.Ints[0])%len(c12Decoders)].run([]byte(c.In), int(c.Ints[1]))
	return err
}
