package props

import (
	"context"
	"errors"
	"fmt"
	"io"
	"os"

	"verifharness/core"

	"github.com/willabides/rjson"
)

func init() { Checks["C10"] = CheckC10 }

// entry is one exported entry point reduced to (offset, has offset, error).
type entry struct {
	name string
	run  func(in []byte, buf *rjson.Buffer) (p int, hasP bool, err error)
}

type nopHandler struct{ n int }

func (h *nopHandler) HandleArrayValue(d []byte) (int, error)     { h.n++; return 0, nil }
func (h *nopHandler) HandleObjectValue(k, d []byte) (int, error) { h.n++; return 0, nil }

var c10Reader rjson.ValueReader // long-lived reader: reused across every input of the run

var c10Entries = []entry{
	{"Valid", func(in []byte, b *rjson.Buffer) (int, bool, error) { rjson.Valid(in, b); return 0, false, nil }},
	{"SkipValue", func(in []byte, b *rjson.Buffer) (int, bool, error) { p, e := rjson.SkipValue(in, b); return p, true, e }},
	{"SkipValueFast", func(in []byte, b *rjson.Buffer) (int, bool, error) {
		p, e := rjson.SkipValueFast(in, b)
		return p, true, e
	}},
	{"HandleArrayValues", func(in []byte, b *rjson.Buffer) (int, bool, error) {
		p, e := rjson.HandleArrayValues(in, &nopHandler{}, b)
		return p, true, e
	}},
	{"HandleObjectValues", func(in []byte, b *rjson.Buffer) (int, bool, error) {
		p, e := rjson.HandleObjectValues(in, &nopHandler{}, b)
		return p, true, e
	}},
	{"UnescapeStringContent", func(in []byte, b *rjson.Buffer) (int, bool, error) {
		_, p, e := rjson.UnescapeStringContent(in, nil)
		return p, true, e
	}},
	{"UnescapeStringContent/dst", func(in []byte, b *rjson.Buffer) (int, bool, error) {
		_, p, e := rjson.UnescapeStringContent(in, make([]byte, 3, 5))
		return p, true, e
	}},
	{"StdLibCompatibleString", func(in []byte, b *rjson.Buffer) (int, bool, error) {
		_ = rjson.StdLibCompatibleString(string(in))
		return 0, false, nil
	}},
	{"StdLibCompatibleStringBytes", func(in []byte, b *rjson.Buffer) (int, bool, error) {
		_ = rjson.StdLibCompatibleStringBytes(in, nil)
		_ = rjson.StdLibCompatibleStringBytes(in, make([]byte, 2, 3))
		return 0, false, nil
	}},
	{"ReadUint64", func(in []byte, b *rjson.Buffer) (int, bool, error) {
		_, p, e := rjson.ReadUint64(in)
		return p, true, e
	}},
	{"ReadUint32", func(in []byte, b *rjson.Buffer) (int, bool, error) {
		_, p, e := rjson.ReadUint32(in)
		return p, true, e
	}},
	{"ReadUint", func(in []byte, b *rjson.Buffer) (int, bool, error) { _, p, e := rjson.ReadUint(in); return p, true, e }},
	{"ReadInt64", func(in []byte, b *rjson.Buffer) (int, bool, error) { _, p, e := rjson.ReadInt64(in); return p, true, e }},
	{"ReadInt32", func(in []byte, b *rjson.Buffer) (int, bool, error) { _, p, e := rjson.ReadInt32(in); return p, true, e }},
	{"ReadInt", func(in []byte, b *rjson.Buffer) (int, bool, error) { _, p, e := rjson.ReadInt(in); return p, true, e }},
	{"ReadFloat64", func(in []byte, b *rjson.Buffer) (int, bool, error) {
		_, p, e := rjson.ReadFloat64(in)
		return p, true, e
	}},
	{"ReadStringBytes", func(in []byte, b *rjson.Buffer) (int, bool, error) {
		_, p, e := rjson.ReadStringBytes(in, nil)
		return p, true, e
	}},
	{"ReadStringBytes/dst", func(in []byte, b *rjson.Buffer) (int, bool, error) {
		_, p, e := rjson.ReadStringBytes(in, make([]byte, 1, 2))
		return p, true, e
	}},
	{"ReadString", func(in []byte, b *rjson.Buffer) (int, bool, error) {
		_, p, e := rjson.ReadString(in, nil)
		return p, true, e
	}},
	{"ReadString/scratch", func(in []byte, b *rjson.Buffer) (int, bool, error) {
		s := []byte("dirty")
		_, p, e := rjson.ReadString(in, &s)
		return p, true, e
	}},
	{"ReadBool", func(in []byte, b *rjson.Buffer) (int, bool, error) { _, p, e := rjson.ReadBool(in); return p, true, e }},
	{"ReadNull", func(in []byte, b *rjson.Buffer) (int, bool, error) { p, e := rjson.ReadNull(in); return p, true, e }},
	{"NextToken", func(in []byte, b *rjson.Buffer) (int, bool, error) { _, p, e := rjson.NextToken(in); return p, true, e }},
	{"NextTokenType", func(in []byte, b *rjson.Buffer) (int, bool, error) {
		tt, p, e := rjson.NextTokenType(in)
		_ = tt.String()
		return p, true, e
	}},
	{"ReadValue", func(in []byte, b *rjson.Buffer) (int, bool, error) {
		v, p, e := rjson.ReadValue(in)
		if e == nil {
			switch x := v.(type) {
			case []interface{}:
				_ = rjson.StdLibCompatibleSlice(x)
			case map[string]interface{}:
				_ = rjson.StdLibCompatibleMap(x)
			}
		}
		return p, true, e
	}},
	{"ReadObject", func(in []byte, b *rjson.Buffer) (int, bool, error) {
		_, p, e := rjson.ReadObject(in)
		return p, true, e
	}},
	{"ReadArray", func(in []byte, b *rjson.Buffer) (int, bool, error) { _, p, e := rjson.ReadArray(in); return p, true, e }},
	{"ValueReader.ReadValue", func(in []byte, b *rjson.Buffer) (int, bool, error) {
		_, p, e := c10Reader.ReadValue(in)
		return p, true, e
	}},
	{"ValueReader.ReadObject", func(in []byte, b *rjson.Buffer) (int, bool, error) {
		_, p, e := c10Reader.ReadObject(in)
		return p, true, e
	}},
	{"ValueReader.ReadArray", func(in []byte, b *rjson.Buffer) (int, bool, error) {
		_, p, e := c10Reader.ReadArray(in)
		return p, true, e
	}},
	{"DecodeBool", func(in []byte, b *rjson.Buffer) (int, bool, error) {
		var v bool
		p, e := rjson.DecodeBool(in, &v)
		return p, true, e
	}},
	{"DecodeFloat64", func(in []byte, b *rjson.Buffer) (int, bool, error) {
		var v float64
		p, e := rjson.DecodeFloat64(in, &v)
		return p, true, e
	}},
	{"DecodeInt64", func(in []byte, b *rjson.Buffer) (int, bool, error) {
		var v int64
		p, e := rjson.DecodeInt64(in, &v)
		return p, true, e
	}},
	{"DecodeInt32", func(in []byte, b *rjson.Buffer) (int, bool, error) {
		var v int32
		p, e := rjson.DecodeInt32(in, &v)
		return p, true, e
	}},
	{"DecodeInt", func(in []byte, b *rjson.Buffer) (int, bool, error) {
		var v int
		p, e := rjson.DecodeInt(in, &v)
		return p, true, e
	}},
	{"DecodeUint64", func(in []byte, b *rjson.Buffer) (int, bool, error) {
		var v uint64
		p, e := rjson.DecodeUint64(in, &v)
		return p, true, e
	}},
	{"DecodeUint32", func(in []byte, b *rjson.Buffer) (int, bool, error) {
		var v uint32
		p, e := rjson.DecodeUint32(in, &v)
		return p, true, e
	}},
	{"DecodeUint", func(in []byte, b *rjson.Buffer) (int, bool, error) {
		var v uint
		p, e := rjson.DecodeUint(in, &v)
		return p, true, e
	}},
	{"DecodeString", func(in []byte, b *rjson.Buffer) (int, bool, error) {
		var v string
		s := []byte("x")
		p, e := rjson.DecodeString(in, &v, &s)
		return p, true, e
	}},
}

// c10Bytes runs every entry point on one input with the given buffer. fn >= 0 selects one.
func c10Bytes(in []byte, buf *rjson.Buffer, fn int) error {
	for i := range c10Entries {
		if fn >= 0 && fn != i {
			continue
		}
		en := &c10Entries[i]
		var p int
		var hasP bool
		var err error
		if perr := core.Catch(func() error { p, hasP, err = en.run(in, buf); return nil }); perr != nil {
			return &fnErr{i, fmt.Errorf("%s: %v", en.name, perr)}
		}
		if hasP && err == nil && (p < 0 || p > len(in)) {
			return &fnErr{i, fmt.Errorf("%s returned offset %d with a nil error; input length is %d", en.name, p, len(in))}
		}
	}
	return nil
}

type fnErr struct {
	fn  int
	err error
}

func (e *fnErr) Error() string { return e.err.Error() }

// hostile handler -------------------------------------------------------------------------

// offsetFromCode: codes 0..hostilePoolSize-1 select from the hostile pool (relative to the data the
// handler was given); any other code is a literal offset.
func offsetFromCode(code int64, data []byte) int {
	if code >= 0 && code < hostilePoolSize {
		return hostileOffset(code, data)
	}
	return int(code)
}

// wellKnownErrs are sentinel errors of the standard library that a handler may pass on (from
// a reader, a context, a file) or use itself to stop a traversal early.
var wellKnownErrs = []error{io.EOF, io.ErrUnexpectedEOF, context.Canceled, context.DeadlineExceeded, os.ErrNotExist, io.ErrShortBuffer, errors.New("EOF")}

// c10Handler: the handler answers call k with the offset coded by codes[k] (0 beyond the
// vector). reentrant: before answering it re-enters the library on its data with the very
// Buffer of the enclosing call. Returns whether a hostile (unfitting) offset was returned
// for an offset-honouring member.
func c10Handler(in []byte, kind byte, codes []int64, mode int64, buf *rjson.Buffer) (nontrivial bool, err error) {
	reentrant := mode&1 == 1
	// mode>>1 selects an error the handler returns together with its last coded offset
	// (0 = none): whatever a handler returns, a nil error never comes with an offset
	// outside the input
	var lastErr error
	if sel := mode >> 1; sel > 0 {
		lastErr = wellKnownErrs[int(sel-1)%len(wellKnownErrs)]
	}
	unfit := false
	h := &recHandler{limit: len(in) + 1}
	h.decide = func(k int, key, data []byte) (int, error) {
		if reentrant {
			rjson.SkipValue(data, buf)
			rjson.Valid(data, buf)
			if len(data) > 0 && data[0] == '[' {
				rjson.HandleArrayValues(data, &nopHandler{}, buf)
			}
			if len(data) > 0 && data[0] == '{' {
				rjson.HandleObjectValues(data, &nopHandler{}, buf)
			}
		}
		off := 0
		if k < len(codes) {
			off = offsetFromCode(codes[k], data)
		}
		if lastErr != nil && k == len(codes)-1 {
			if off != 0 {
				nontrivial = true
			}
			return off, lastErr
		}
		if len(data) > 0 && (data[0] == '"' || data[0] == '[' || data[0] == '{') {
			if off < 0 || off > len(data) {
				unfit = true
			}
			if off != 0 {
				nontrivial = true
			}
		}
		return off, nil
	}
	var p int
	var terr error
	if perr := core.Catch(func() error { p, terr = traverse(kind, in, h, buf); return nil }); perr != nil {
		return nontrivial, fmt.Errorf("traversal with hostile handler offsets: %v", perr)
	}
	if h.over {
		return nontrivial, fmt.Errorf("handler called %d times on a %d-byte input (no progress)", len(h.calls), len(in))
	}
	if terr == nil && (p < 0 || p > len(in)) {
		return nontrivial, fmt.Errorf("traversal returned offset %d with a nil error; input length is %d", p, len(in))
	}
	if unfit && terr == nil {
		return nontrivial, fmt.Errorf("a handler offset that does not fit inside the input was accepted (traversal returned p=%d, nil error)", p)
	}
	return nontrivial, nil
}

// CheckC10: Kind "handler": Ints = [kind, reentrant, buffer config, codes...]; any other
// kind: every entry point on In (Ints[0] = entry index or absent for all, Ints[1] = buffer config).
// c10TokenType: TokenType is an exported uint8 type, so every one of its 256 values can reach
// its String method (directly or through fmt); it must return normally for all of them.
func c10TokenType(v uint8) error {
	return core.Catch(func() error {
		t := rjson.TokenType(v)
		_ = t.String()
		_ = fmt.Sprintf("%v %s", t, t)
		return nil
	})
}

func CheckC10(c *core.Case) error {
	in := []byte(c.In)
	if c.Kind == "tokentype" {
		if len(c.Ints) < 1 {
			return fmt.Errorf("bad case")
		}
		return c10TokenType(uint8(c.Ints[0]))
	}
	if c.Kind == "handler" {
		if len(c.Ints) < 3 {
			return fmt.Errorf("bad case")
		}
		_, err := c10Handler(in, byte(c.Ints[0]), c.Ints[3:], c.Ints[1], bufferConfig(c.Ints[2]))
		return err
	}
	fn, cfg := -1, int64(0)
	if len(c.Ints) > 0 {
		fn = int(c.Ints[0])
	}
	if len(c.Ints) > 1 {
		cfg = c.Ints[1]
	}
	for _, s := range c.Steps {
		// prior inputs of the long-lived reader
		c10Reader.ReadValue(s.In)
	}
	return c10Bytes(in, bufferConfig(cfg), fn)
}
