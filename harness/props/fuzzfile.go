package props

import (
	"fmt"
	"os"
	"strconv"
	"strings"
)

// readGoFuzzCorpusFile parses a "go test fuzz v1" corpus file holding one []byte value.
func readGoFuzzCorpusFile(path string) ([]byte, error) {
	b, err := os.ReadFile(path)
	if err != nil {
		return nil, err
	}
	lines := strings.Split(strings.TrimSpace(string(b)), "\n")
	if len(lines) < 2 || !strings.HasPrefix(lines[0], "go test fuzz v1") {
		return nil, fmt.Errorf("not a go fuzz corpus file")
	}
	l := strings.TrimSpace(lines[1])
	if !strings.HasPrefix(l, "[]byte(") || !strings.HasSuffix(l, ")") {
		return nil, fmt.Errorf("unexpected corpus value %q", l)
	}
	s, err := strconv.Unquote(l[len("[]byte(") : len(l)-1])
	if err != nil {
		return nil, err
	}
	return []byte(s), nil
}
