package props

import (
	"bytes"
	"encoding/json"
	"fmt"

	"verifharness/core"
	"verifharness/ref"

	"github.com/willabides/rjson"
)

func init() { Checks["C06"] = CheckC06 }

type c06Info struct {
	ok         bool
	nontrivial bool
}

// stdStringToken: does encoding/json's streaming decoder see a string token first, and what
// does it decode to?
func stdStringToken(in []byte) (string, bool) {
	dec := json.NewDecoder(bytes.NewReader(in))
	t, err := dec.Token()
	if err != nil {
		return "", false
	}
	s, ok := t.(string)
	return s, ok
}

// c06Check checks every string reader on one input. scratch is reused across calls by the
// caller (dirty scratch configuration).
func c06Check(in []byte, dirty *[]byte) (info c06Info, err error) {
	i := ref.SkipWS(in, 0)
	end := -1
	errPos := i
	if i < len(in) && in[i] == '"' {
		end = ref.String(in, i)
		if end < 0 {
			errPos = i + 1 // rejected somewhere after the opening quote
		}
	}
	info.ok = end >= 0
	var want []byte
	if info.ok {
		content := in[i+1 : end-1]
		want = ref.Unescape(content)
		for _, c := range content {
			if c == '\\' || c >= 0x80 {
				info.nontrivial = true
				break
			}
		}
	} else {
		info.nontrivial = errPos > i
	}
	// cross-check the oracle with encoding/json
	ss, sok := stdStringToken(in)
	if sok != info.ok {
		// the stdlib decoder reads ahead: a string followed by bytes that are invalid at top
		// level is still a string token, so only complain when the reference accepts and the
		// stdlib rejects, or vice versa, on the token itself
		if _, sok2 := stdStringToken(in[:maxInt(end, 0)]); !(info.ok && sok2) {
			return info, errOracle
		}
		ss, _ = stdStringToken(in[:end])
	}
	if info.ok && ss != string(ref.ReplaceInvalidUTF8(want)) {
		return info, errOracle
	}

	cmp := func(name string, got []byte, p int, gerr error) error {
		if (gerr == nil) != info.ok {
			return fmt.Errorf("%s: err=%v p=%d; reference and encoding/json: well-formed string token first=%v", name, gerr, p, info.ok)
		}
		if !info.ok {
			return nil
		}
		if p != end {
			return fmt.Errorf("%s returned p=%d; the token ends at %d", name, p, end)
		}
		if !bytes.Equal(got, want) {
			return fmt.Errorf("%s returned content %q; reference content is %q", name, got, want)
		}
		return nil
	}
	s, p, e := rjson.ReadString(in, nil)
	if err := cmp("ReadString(nil scratch)", []byte(s), p, e); err != nil {
		return info, err
	}
	empty := []byte{}
	s, p, e = rjson.ReadString(in, &empty)
	if err := cmp("ReadString(empty scratch)", []byte(s), p, e); err != nil {
		return info, err
	}
	if dirty != nil {
		s, p, e = rjson.ReadString(in, dirty)
		if err := cmp("ReadString(dirty scratch)", []byte(s), p, e); err != nil {
			return info, err
		}
	}
	b, p, e := rjson.ReadStringBytes(in, nil)
	if err := cmp("ReadStringBytes(nil)", b, p, e); err != nil {
		return info, err
	}
	pre := []byte("PRE")
	b, p, e = rjson.ReadStringBytes(in, pre[:3:3])
	if e == nil && !bytes.HasPrefix(b, pre) {
		return info, fmt.Errorf("ReadStringBytes(dst) did not keep the destination's contents: %q", b)
	}
	if e == nil {
		b = b[3:]
	}
	if err := cmp("ReadStringBytes(dst=\"PRE\")", b, p, e); err != nil {
		return info, err
	}
	var ds = "initial"
	p, e = rjson.DecodeString(in, &ds, nil)
	if info.ok {
		if err := cmp("DecodeString", []byte(ds), p, e); err != nil {
			return info, err
		}
	}
	if info.ok {
		content := in[i+1 : end-1]
		u, up, ue := rjson.UnescapeStringContent(content, nil)
		if ue != nil || up != len(content) || !bytes.Equal(u, want) {
			return info, fmt.Errorf("UnescapeStringContent(%q) = (%q, p=%d, %v); want (%q, p=%d, nil)", content, u, up, ue, want, len(content))
		}
		u, up, ue = rjson.UnescapeStringContent(content, pre[:3:3])
		if ue != nil || up != len(content) || !bytes.Equal(u, append([]byte("PRE"), want...)) {
			return info, fmt.Errorf("UnescapeStringContent(%q, dst=\"PRE\") = (%q, p=%d, %v); want \"PRE\"+%q", content, u, up, ue, want)
		}
	}
	return info, nil
}

func CheckC06(c *core.Case) error {
	if c.Kind == "cold" {
		return checkCold(c)
	}
	dirty := []byte("dirty \\ \" scratch 0123456789 \xff")
	_, err := c06Check(inputOf(c), &dirty)
	return err
}
