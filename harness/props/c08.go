package props

import (
	"bytes"
	"fmt"
	"math/big"

	"verifharness/core"
	"verifharness/ref"

	"github.com/willabides/rjson"
)

func init() { Checks["C08"] = CheckC08 }

// composeDecoder is a decoder written only against the public API in the documented
// style. Every choice it makes is read from a vector, so a run is reproducible.
type composeDecoder struct {
	vec      []int64
	pos      int
	full     bool // never skip, never decline
	shared   *rjson.Buffer
	used     map[string]int
	mixedOK  bool // a container with >= 2 members was decoded with >= 2 distinct member strategies
	skipped  bool
	depth    int
	maxDepth int
}

type skippedValue struct{}

var two53 = new(big.Int).Lsh(big.NewInt(1), 53)

func (d *composeDecoder) choose(n int, what string) int {
	k := 0
	if len(d.vec) > 0 && d.pos < 4096 {
		v := d.vec[d.pos%len(d.vec)]
		if v < 0 {
			v = -v
		}
		k = int(v % int64(n))
	}
	d.pos++
	if d.used != nil {
		d.used[what+"#"+string(rune('0'+k))]++
	}
	return k
}

func (d *composeDecoder) buf() *rjson.Buffer {
	switch d.choose(3, "buffer") {
	case 0:
		return nil
	case 1:
		return new(rjson.Buffer)
	}
	return d.shared
}

// value decodes the value at the start of data; p is relative to data.
func (d *composeDecoder) value(data []byte) (v interface{}, strat string, p int, err error) {
	tt, tp, err := rjson.NextTokenType(data)
	if err != nil {
		return nil, "", 0, err
	}
	base := 0
	if d.choose(2, "slice-from-token") == 1 {
		base = tp - 1
		data = data[base:]
	}
	if !d.full && d.choose(4, "skip?") == 0 {
		d.skipped = true
		var pp int
		if d.choose(2, "skipfn") == 0 {
			pp, err = rjson.SkipValue(data, d.buf())
			return skippedValue{}, "SkipValue", base + pp, err
		}
		pp, err = rjson.SkipValueFast(data, d.buf())
		return skippedValue{}, "SkipValueFast", base + pp, err
	}
	switch tt {
	case rjson.NullType:
		if d.choose(2, "null") == 0 {
			pp, err := rjson.ReadNull(data)
			return nil, "ReadNull", base + pp, err
		}
		s := "untouched"
		pp, err := rjson.DecodeString(data, &s, nil)
		if err == nil && s != "untouched" {
			return nil, "DecodeString(null)", 0, fmt.Errorf("DecodeString on null changed its target")
		}
		return nil, "DecodeString(null)", base + pp, err
	case rjson.TrueType, rjson.FalseType:
		if d.choose(2, "bool") == 0 {
			b, pp, err := rjson.ReadBool(data)
			return b, "ReadBool", base + pp, err
		}
		var b bool
		pp, err := rjson.DecodeBool(data, &b)
		return b, "DecodeBool", base + pp, err
	case rjson.NumberType:
		k := d.choose(4, "number")
		if k >= 2 {
			// integer readers only where they must agree with float64 decoding
			ok, isInt, val, _ := ref.IntToken(data)
			i := ref.SkipWS(data, 0)
			if !(ok && isInt && val.CmpAbs(two53) <= 0 && !(val.Sign() == 0 && data[i] == '-')) {
				k -= 2
			}
		}
		switch k {
		case 0:
			f, pp, err := rjson.ReadFloat64(data)
			return f, "ReadFloat64", base + pp, err
		case 1:
			var f float64
			pp, err := rjson.DecodeFloat64(data, &f)
			return f, "DecodeFloat64", base + pp, err
		case 2:
			n, pp, err := rjson.ReadInt64(data)
			return float64(n), "ReadInt64", base + pp, err
		default:
			var n int64
			pp, err := rjson.DecodeInt64(data, &n)
			return float64(n), "DecodeInt64", base + pp, err
		}
	case rjson.StringType:
		switch d.choose(4, "string") {
		case 0:
			s, pp, err := rjson.ReadString(data, nil)
			return s, "ReadString", base + pp, err
		case 1:
			scratch := []byte("dirty-dirty")
			s, pp, err := rjson.ReadString(data, &scratch)
			return s, "ReadString(scratch)", base + pp, err
		case 2:
			b, pp, err := rjson.ReadStringBytes(data, []byte("PRE"))
			if err != nil {
				return nil, "ReadStringBytes", base + pp, err
			}
			return string(b[3:]), "ReadStringBytes", base + pp, nil
		default:
			var s string
			pp, err := rjson.DecodeString(data, &s, nil)
			return s, "DecodeString", base + pp, err
		}
	case rjson.ArrayStartType:
		if d.choose(5, "array") == 0 {
			var vr rjson.ValueReader
			a, pp, err := vr.ReadArray(data)
			if err != nil {
				return nil, "ValueReader.ReadArray", base + pp, err
			}
			return a, "ValueReader.ReadArray", base + pp, nil
		}
		out := []interface{}{}
		strats := map[string]bool{}
		d.depth++
		if d.depth > d.maxDepth {
			d.maxDepth = d.depth
		}
		pp, err := rjson.HandleArrayValues(data, rjson.ArrayValueHandlerFunc(func(m []byte) (int, error) {
			if !d.full && d.choose(5, "decline?") == 0 {
				d.skipped = true
				out = append(out, skippedValue{})
				strats["decline"] = true
				return 0, nil
			}
			v, st, q, err := d.value(m)
			if err != nil {
				return q, err
			}
			strats[st] = true
			out = append(out, v)
			return q, nil
		}), d.buf())
		d.depth--
		if len(out) >= 2 && len(strats) >= 2 {
			d.mixedOK = true
		}
		return out, "HandleArrayValues", base + pp, err
	case rjson.ObjectStartType:
		if d.choose(5, "object") == 0 {
			var vr rjson.ValueReader
			o, pp, err := vr.ReadObject(data)
			if err != nil {
				return nil, "ValueReader.ReadObject", base + pp, err
			}
			return o, "ValueReader.ReadObject", base + pp, nil
		}
		out := map[string]interface{}{}
		strats := map[string]bool{}
		members := 0
		d.depth++
		if d.depth > d.maxDepth {
			d.maxDepth = d.depth
		}
		pp, err := rjson.HandleObjectValues(data, rjson.ObjectValueHandlerFunc(func(k, m []byte) (int, error) {
			// the field name is read either before the member's value is decoded or after it
			// (as ValueReader does): it must still be the member's name then
			keyOf := func() (string, error) {
				if bytes.IndexByte(k, '\\') >= 0 {
					kb, kp, err := rjson.UnescapeStringContent(k, nil)
					if err != nil || kp != len(k) {
						return "", fmt.Errorf("UnescapeStringContent failed on a key the traversal accepted: %q (p=%d, err=%v)", k, kp, err)
					}
					return string(kb), nil
				}
				return string(k), nil
			}
			late := d.choose(2, "key-after-value") == 1
			var key string
			if !late {
				var kerr error
				if key, kerr = keyOf(); kerr != nil {
					return 0, kerr
				}
			}
			members++
			if !d.full && d.choose(5, "decline?") == 0 {
				d.skipped = true
				if late {
					key, _ = keyOf()
				}
				out[key] = skippedValue{}
				strats["decline"] = true
				return 0, nil
			}
			v, st, q, err := d.value(m)
			if err != nil {
				return q, err
			}
			if late {
				var kerr error
				if key, kerr = keyOf(); kerr != nil {
					return 0, kerr
				}
			}
			strats[st] = true
			out[key] = v
			return q, nil
		}), d.buf())
		d.depth--
		if members >= 2 && len(strats) >= 2 {
			d.mixedOK = true
		}
		return out, "HandleObjectValues", base + pp, err
	}
	return nil, "", 0, fmt.Errorf("decoder: unexpected token type %v", tt)
}

type c08Info struct {
	inDomain   bool
	directOK   bool
	nontrivial bool
}

// c08Check runs one decoder program (vec, full) against direct decoding.
func c08Check(in []byte, vec []int64, full bool, count bool) (info c08Info, used map[string]int, err error) {
	if rawDepthOver(in, ref.MaxDepth) {
		return info, nil, nil // beyond 10,000 levels: outside the property's second clause, and
		// direct decoding fails on its guard while caller-side recursion has none
	}
	info.inDomain = true
	want, wp, werr := rjson.ReadValue(in)
	info.directOK = werr == nil
	d := &composeDecoder{vec: vec, full: full, shared: new(rjson.Buffer)}
	if count {
		d.used = map[string]int{}
	}
	got, _, p, derr := d.value(in)
	used = d.used
	if werr == nil {
		if derr != nil {
			return info, used, fmt.Errorf("direct decoding succeeds (p=%d) but the composed decoder (full=%v) fails: %v", wp, full, derr)
		}
		if p != wp {
			return info, used, fmt.Errorf("direct decoding ends at %d; the composed decoder (full=%v) ends at %d", wp, full, p)
		}
		if !d.skipped && !ref.Equal(want, got) {
			return info, used, fmt.Errorf("composed decoder that read every member built a different tree: got %.300s want %.300s", fmt.Sprintf("%#v", got), fmt.Sprintf("%#v", want))
		}
		info.nontrivial = d.mixedOK
		return info, used, nil
	}
	if full && derr == nil {
		return info, used, fmt.Errorf("direct decoding fails (%v) but a decoder reading every member with validating readers succeeds (p=%d, tree %.200s)", werr, p, fmt.Sprintf("%#v", got))
	}
	return info, used, nil
}

// CheckC08: Ints = [full, vector...].
func CheckC08(c *core.Case) error {
	if len(c.Ints) < 1 {
		return fmt.Errorf("bad case")
	}
	_, _, err := c08Check([]byte(c.In), c.Ints[1:], c.Ints[0] != 0, false)
	return err
}
