package props

import (
	"fmt"
	"testing"

	"verifharness/core"
	"verifharness/gen"
)

// trickyTemplates embed a string S (as a value or a key) in containers of both kinds.
var trickyTemplates = [][2]string{
	{"[", "]"}, {`{"k":`, "}"}, {"{", ":1}"}, {"[[", "],1]"}, {`{"a":{`, `:[[]]}}`}, {"[{", `:{}}]`},
	{`[1,{"a":[`, `]},[]]`}, {`{"a":[{"b":`, `}],"c":{}}`}, {"[\"]\",", ",\"[\"]"}, {`{"}":`, `,"{":[]}`},
}

func TestC11(t *testing.T) {
	runProp(t, "C11", func(e *env) {
		e.coldStage(2, 32)
		s := &c11State{r: e.r, prim: primedBuffer()}
		// strings made of structural characters, quotes and backslashes inside containers
		sl := gen.Shortlex{Alphabet: []byte("[]{}QB,:a "), MaxLen: e.cfg.Pick(4, 6)}
		if e.enumStage("tricky-strings", fmt.Sprintf("all %d strings of length <= %d over [ ] { } \\\" \\\\ , : a SP x %d container templates", sl.Count(), sl.MaxLen, len(trickyTemplates)), true) {
			buf := make([]byte, 0, 64)
			sl.Each(e.cfg.Shard, e.cfg.Shards, func(idx int, b []byte) bool {
				for _, tp := range trickyTemplates {
					buf = append(buf[:0], tp[0]...)
					buf = append(buf, '"')
					for _, c := range b {
						switch c {
						case 'Q':
							buf = append(buf, '\\', '"')
						case 'B':
							buf = append(buf, '\\', '\\')
						default:
							buf = append(buf, c)
						}
					}
					buf = append(buf, '"')
					buf = append(buf, tp[1]...)
					e.r.Begin("tricky", buf)
					if err := core.Catch(func() error { return s.input("tricky", buf) }); err != nil {
						e.r.Fail(caseOf("C11", "tricky", buf, err), err)
						return false
					}
				}
				return true
			})
		}
		e.feed(feedOpts{counts: 2, streams: true, shortlexQ: 4, shortlexT: 6, sweepQ: 2500, sweepT: 60000, nestQ: 150, nestT: 4000, indentQ: 40, indentT: 1500, numShapes: 4, strRuns: true, tokenSweepQ: 60, templateSweep: true, amplify: true,
			mutQ: 200000, mutT: 4000000, nextByte: true, alignment: true, boundaries: true}, s.input)
	})
}
