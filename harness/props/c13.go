package props

import (
	"fmt"
	"io"

	"verifharness/core"
	"verifharness/ref"

	"github.com/willabides/rjson"
)

func init() { Checks["C13"] = CheckC13 }

// tokenTypeOf maps the reference token class to rjson's exported constant, by name.
var tokenTypeOf = map[int]rjson.TokenType{
	ref.TInvalid: rjson.InvalidType, ref.TNull: rjson.NullType, ref.TString: rjson.StringType, ref.TNumber: rjson.NumberType,
	ref.TTrue: rjson.TrueType, ref.TFalse: rjson.FalseType, ref.TObjectStart: rjson.ObjectStartType, ref.TObjectEnd: rjson.ObjectEndType,
	ref.TArrayStart: rjson.ArrayStartType, ref.TArrayEnd: rjson.ArrayEndType, ref.TComma: rjson.CommaType, ref.TColon: rjson.ColonType,
}

func hasLit(in []byte, i int, l string) bool {
	return len(in)-i >= len(l) && string(in[i:i+len(l)]) == l
}

// c13Families lists every typed Read function with the token classes it may accept.
type family struct {
	name    string
	classes []int
	run     func(in []byte) error
}

var c13Families = []family{
	{"ReadNull", []int{ref.TNull}, func(in []byte) error { _, err := rjson.ReadNull(in); return err }},
	{"ReadBool", []int{ref.TTrue, ref.TFalse}, func(in []byte) error { _, _, err := rjson.ReadBool(in); return err }},
	{"ReadString", []int{ref.TString}, func(in []byte) error { _, _, err := rjson.ReadString(in, nil); return err }},
	{"ReadStringBytes", []int{ref.TString}, func(in []byte) error { _, _, err := rjson.ReadStringBytes(in, nil); return err }},
	{"ReadFloat64", []int{ref.TNumber}, func(in []byte) error { _, _, err := rjson.ReadFloat64(in); return err }},
	{"ReadInt64", []int{ref.TNumber}, func(in []byte) error { _, _, err := rjson.ReadInt64(in); return err }},
	{"ReadInt32", []int{ref.TNumber}, func(in []byte) error { _, _, err := rjson.ReadInt32(in); return err }},
	{"ReadInt", []int{ref.TNumber}, func(in []byte) error { _, _, err := rjson.ReadInt(in); return err }},
	{"ReadUint64", []int{ref.TNumber}, func(in []byte) error { _, _, err := rjson.ReadUint64(in); return err }},
	{"ReadUint32", []int{ref.TNumber}, func(in []byte) error { _, _, err := rjson.ReadUint32(in); return err }},
	{"ReadUint", []int{ref.TNumber}, func(in []byte) error { _, _, err := rjson.ReadUint(in); return err }},
	{"ReadObject", []int{ref.TObjectStart}, func(in []byte) error { _, _, err := rjson.ReadObject(in); return err }},
	{"ReadArray", []int{ref.TArrayStart}, func(in []byte) error { _, _, err := rjson.ReadArray(in); return err }},
}

// CheckC13 checks one input against the token table, the literal rule and type
// exclusivity. Kind selects nothing: every assertion is made on every input.
func CheckC13(c *core.Case) error {
	if c.Kind == "cold" {
		return checkCold(c)
	}
	_, err := c13Check(inputOf(c), true)
	return err
}

// c13Check returns whether the decisive byte exists (input is not empty/all-whitespace).
func c13Check(in []byte, exclusivity bool) (decisive bool, err error) {
	i := ref.SkipWS(in, 0)
	tok, p, terr := rjson.NextToken(in)
	tt, p2, terr2 := rjson.NextTokenType(in)
	if i == len(in) {
		if terr != io.EOF {
			return false, fmt.Errorf("NextToken on empty/all-whitespace input: err=%v, want io.EOF", terr)
		}
		if terr2 != io.EOF {
			return false, fmt.Errorf("NextTokenType on empty/all-whitespace input: err=%v, want io.EOF", terr2)
		}
	} else {
		cl := ref.Classify(in[i])
		if terr == io.EOF || terr2 == io.EOF {
			return true, fmt.Errorf("end-of-input reported although byte %#x at %d is not whitespace (NextToken err=%v, NextTokenType err=%v)", in[i], i, terr, terr2)
		}
		if p != i+1 || tok != in[i] {
			return true, fmt.Errorf("NextToken = (%#x, %d); first non-whitespace byte is %#x at index %d (want p=%d)", tok, p, in[i], i, i+1)
		}
		if (terr != nil) != (cl == ref.TInvalid) {
			return true, fmt.Errorf("NextToken err=%v for byte %#x whose class is %d (error expected exactly for invalid bytes)", terr, in[i], cl)
		}
		if terr2 != nil {
			return true, fmt.Errorf("NextTokenType err=%v on input with a non-whitespace byte", terr2)
		}
		if p2 != i+1 || tt != tokenTypeOf[cl] {
			return true, fmt.Errorf("NextTokenType = (%v, %d); want (%v, %d) for byte %#x", tt, p2, tokenTypeOf[cl], i+1, in[i])
		}
	}
	// literal readers
	np, nerr := rjson.ReadNull(in)
	if want := hasLit(in, i, "null"); (nerr == nil) != want || (want && np != i+4) {
		return i < len(in), fmt.Errorf("ReadNull = (%d, %v); literal null present after whitespace: %v (want p=%d)", np, nerr, want, i+4)
	}
	bv, bp, berr := rjson.ReadBool(in)
	switch {
	case hasLit(in, i, "true"):
		if berr != nil || bp != i+4 || !bv {
			return true, fmt.Errorf("ReadBool = (%v, %d, %v); want (true, %d, nil)", bv, bp, berr, i+4)
		}
	case hasLit(in, i, "false"):
		if berr != nil || bp != i+5 || bv {
			return true, fmt.Errorf("ReadBool = (%v, %d, %v); want (false, %d, nil)", bv, bp, berr, i+5)
		}
	default:
		if berr == nil {
			return i < len(in), fmt.Errorf("ReadBool succeeded (%v, %d) although no boolean literal follows the whitespace", bv, bp)
		}
	}
	if !exclusivity {
		return i < len(in), nil
	}
	cl := -1
	if i < len(in) {
		cl = ref.Classify(in[i])
	}
	for _, f := range c13Families {
		if f.run(in) != nil {
			continue
		}
		ok := false
		for _, k := range f.classes {
			ok = ok || k == cl
		}
		if !ok {
			return i < len(in), fmt.Errorf("%s succeeded on an input whose first token byte has class %d (%v), which is not the type it reads", f.name, cl, tokenTypeOf[maxInt(cl, 0)])
		}
	}
	return i < len(in), nil
}

func maxInt(a, b int) int {
	if a > b {
		return a
	}
	return b
}
