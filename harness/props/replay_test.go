package props

import (
	"fmt"
	"os"
	"testing"

	"verifharness/core"
)

// TestReplay runs the plain check function on one concrete case file: no generator, no
// library in the loop. Output protocol for the driver: REPLAY-OK / REPLAY-VIOLATION.
func TestReplay(t *testing.T) {
	path := os.Getenv("VERIF_REPLAY")
	if path == "" {
		t.Skip("VERIF_REPLAY not set")
	}
	c, err := core.LoadCase(path)
	if err != nil {
		fmt.Printf("REPLAY-ERROR: %v\n", err)
		t.Fatal(err)
	}
	fn := Checks[c.Prop]
	if fn == nil {
		fmt.Printf("REPLAY-ERROR: no check registered for %q\n", c.Prop)
		t.Fatal("no check")
	}
	if err := core.Catch(func() error { return fn(c) }); err != nil {
		if err == errOracle {
			fmt.Printf("REPLAY-INCONCLUSIVE: %v\n", err)
			return
		}
		fmt.Printf("REPLAY-VIOLATION: property=%s %v\n", c.Prop, err)
		t.Fail()
		return
	}
	fmt.Printf("REPLAY-OK: property=%s case holds\n", c.Prop)
}
