package props

import (
	"fmt"
	"testing"

	"verifharness/core"
	"verifharness/gen"
	"verifharness/ref"

	"github.com/willabides/rjson"

	"pgregory.net/rapid"
)

func TestC12(t *testing.T) {
	runProp(t, "C12", func(e *env) {
		r := e.r
		// every input goes to every Decode function; the initial target cycles with a counter
		// that is part of the recorded case
		n := 0
		eval := func(kind string, in []byte) error {
			for di, d := range c12Decoders {
				init := n % d.ninit
				n++
				class, nz, err := d.run(in, init)
				key := core.HashInts(core.Hash(in), int64(di), int64(init))
				r.Eval(key, nz)
				r.Label("outcome." + class)
				if r.WantSample(key) {
					r.SampleInput(key, kind, in, "decoder", d.name, "init", init, "outcome", class)
				}
				if err != nil {
					return &caseErr{&core.Case{Prop: "C12", Kind: kind, In: append([]byte(nil), in...), Ints: []int64{int64(di), int64(init)}, Strs: []string{d.name}}, err}
				}
				// targets that already hold (part of) the input's own text
				for k := 0; k < d.nderived; k++ {
					class, _, err := d.run(in, c12Derived+k)
					if class == "no-derived-target" {
						continue
					}
					r.Eval(core.HashInts(core.Hash(in), int64(di), int64(c12Derived+k)), true)
					r.Label("derived-target." + class)
					if err != nil {
						return &caseErr{&core.Case{Prop: "C12", Kind: kind, In: append([]byte(nil), in...), Ints: []int64{int64(di), int64(c12Derived + k)}, Strs: []string{d.name}}, err}
					}
				}
			}
			return nil
		}
		run := func(kind string, in []byte) bool {
			r.Begin(kind, in)
			if err := core.Catch(func() error { return eval(kind, in) }); err != nil {
				r.Fail(caseOf("C12", kind, in, err), err)
				return false
			}
			return true
		}
		// 1. tokens of every type, null and its neighbours, with whitespace prefixes and next bytes
		if e.enumStage("tokens", "pool of tokens of every type (numbers on every path, integers at type bounds, strings, literals, null neighbours) x 8 prefixes x 14 suffixes (two of them over 64 bytes long)", true) {
			var toks []string
			toks = append(toks, gen.Nums...)
			toks = append(toks, "null", "nul", "nulL", "nullx", "n", "Null", "NULL", "nu ll", "true", "false", "tru", "fals", "truex",
				`""`, `"a"`, `"a\nb"`, `"😀"`, `"\ud800"`, `"é"`, `"\xff"`, `"unterminated`, `"bad\escape"`, `"ctl`+"\x01"+`"`, `"null"`, `"1"`,
				"[]", "{}", "[null]", `{"a":null}`, "-", "+1", "1.", "1e", ".5", "-null", "", " ", "x", ",", ":", "]", "}")
			pres := []string{"", " ", "\t\r\n", "\x0c", " \x00", "        ", "                 ", "\n\n\n\n\n\n\n\n\n\n\n\n\n\n\n\n\n\n\n\n\n\n\n\n\n"}
			sufs := []string{"", " ", ",", "]", "}", "x", "0", ".", "e", "\"", "null", "\x00",
				`, "next": [1, 2, 3], "padding": "xxxxxxxxxxxxxxxxxxxxxxxxxxxxxxxxxxxxxxxxxxxxxxxxxxxxxxxxxxxxxxxxxxxxxxxxxxxxxxxxxxxxxxxxx"}`, ".5e3,                                                                                "}
			buf := make([]byte, 0, 256)
		tk:
			for ti, tok := range toks {
				if !e.cfg.Mine(ti) {
					continue
				}
				for _, pre := range pres {
					for _, suf := range sufs {
						buf = append(append(append(buf[:0], pre...), tok...), suf...)
						if !run("token", buf) {
							break tk
						}
					}
				}
			}
		}
		// 2. rapid: generated scalars of every type with drawn prefixes/suffixes
		e.rapidStage("scalars", "rapid", e.cfg.N(40000, 3000000), func(rt *rapid.T) {
			var b []byte
			b = append(b, []string{"", " ", "\n\t"}[rapid.IntRange(0, 2).Draw(rt, "pre")]...)
			if rapid.IntRange(0, 5).Draw(rt, "null?") == 0 {
				b = append(b, "null"...)
			} else {
				b = gen.Scalar(rt, b, gen.Small)
			}
			b = append(b, gen.Trailers[rapid.IntRange(0, len(gen.Trailers)-1).Draw(rt, "trail")]...)
			if rapid.IntRange(0, 3).Draw(rt, "mut?") == 0 {
				b = gen.Mutate(rt, b)
			}
			r.Begin("scalar", b)
			if err := core.Catch(func() error { return eval("scalar", b) }); err != nil {
				failRapid(rt, r, caseOf("C12", "scalar", b, err), err)
			}
		})
		// 2b. sequences on one persistent target and one persistent scratch: the initial value of
		// a call is whatever the previous Decode call stored (compared with an independent
		// byte-wise clone, since a stored string may alias library-side memory)
		e.rapidStage("sequences", "stateful", e.cfg.N(6000, 400000), func(rt *rapid.T) {
			var target = "seed value"
			expect := cloneString(target)
			scratch := make([]byte, 0, rapid.IntRange(0, 64).Draw(rt, "scratchcap"))
			n := rapid.IntRange(2, 7).Draw(rt, "calls")
			var hist []core.Case
			for i := 0; i < n; i++ {
				var b []byte
				switch rapid.IntRange(0, 5).Draw(rt, "inputkind") {
				case 0:
					b = []byte("null")
				case 1: // fails after a prefix and an escape has been processed
					b = append(append([]byte{'"'}, gen.StrContent(rt, 4)...), []string{`\q"`, `\`, "\x01\"", `\u12"`}[rapid.IntRange(0, 3).Draw(rt, "tail")]...)
				case 2:
					b = gen.Num(rt, nil)
				default:
					b = gen.Str(rt, nil, rapid.IntRange(0, 6).Draw(rt, "pieces"))
				}
				hist = append(hist, core.Case{Kind: "DecodeString", In: b})
				r.Begin("sequence", b)
				want, wp, werr := rjson.ReadString(append([]byte(nil), b...), nil)
				p, err := rjson.DecodeString(b, &target, &scratch)
				i0 := ref.SkipWS(b, 0)
				key := core.HashInts(core.Hash(b), int64(i), int64(len(hist)))
				r.Eval(key, true)
				r.Label("outcome.sequence")
				var verr error
				switch {
				case werr == nil:
					if err != nil || p != wp || target != want {
						verr = fmt.Errorf("call %d: ReadString gives (%q, %d) but DecodeString with the persistent scratch gives p=%d err=%v target=%q", i, want, wp, p, err, target)
					}
					expect = cloneString(want)
				case hasLit(b, i0, "null"):
					if err != nil || p != i0+4 || target != expect {
						verr = fmt.Errorf("call %d on null: p=%d err=%v target=%q; want target unchanged %q", i, p, err, target, expect)
					}
				default:
					if err == nil {
						verr = fmt.Errorf("call %d: DecodeString accepted %q", i, b)
					} else if target != expect {
						verr = fmt.Errorf("call %d: DecodeString failed (%v) on %q but the target changed from %q to %q (the value stored by an earlier call on the same scratch)", i, err, b, expect, target)
					}
				}
				if verr != nil {
					c := &core.Case{Prop: "C12", Kind: "sequence", Steps: append([]core.Case(nil), hist...), Ints: []int64{int64(cap(scratch))}}
					failRapid(rt, r, c, verr)
				}
			}
		})
		// 3. shared byte-level generators for breadth
		e.feed(feedOpts{counts: 1, templateSweep: true, shortlexQ: 3, shortlexT: 5, sweepQ: 40, sweepT: 3000, mutQ: 10000, mutT: 500000},
			func(kind string, in []byte) error { return eval(kind, in) })
	})
}
