package props

import (
	"bufio"
	"bytes"
	"encoding/hex"
	"fmt"
	"os"
	"os/exec"
	"strconv"
	"strings"

	"verifharness/core"
)

// Cold start: what a function returns must not depend on which other functions of the
// package ran before it in the process (tables built on first use by one entry point and
// read by another, state initialised by a side effect). A child process - the test binary
// itself, running TestColdChild - calls ONE operation first thing on a list of probe inputs;
// the parent calls every operation on every probe (so everything that can be initialised is)
// and then the same operation again. The two answers must agree.
//
// The operations are those of c18Op (one per exported function, results rendered to text).

// coldProbes are the inputs of a cold-start comparison.
var coldProbes = [][]byte{
	[]byte(`"café \xff"`), []byte("caf\xc3\xa9 \xff"), []byte("\xff\xfe\xfd"), []byte(`"a\nbé😀\ud800"`), []byte(`a\nbé😀`),
	[]byte(`"plain"`), []byte(`""`), []byte("\"\xed\xa0\x80\xe2\x82\""), []byte("é€😀"), []byte(`"A\\\"\/"`),
	[]byte(`0`), []byte(`-0`), []byte(`12`), []byte(`1.5`), []byte(`-2.5e-3`), []byte(`123456789012345678`), []byte(`18446744073709551615`), []byte(`9223372036854775808`),
	[]byte(`1e23`), []byte(`8.41e21`), []byte(`2.2250738585072011e-308`), []byte(`4.9406564584124654e-324`), []byte(`1.7976931348623159e308`), []byte(`0.000000000000000000000000000001`),
	[]byte(`9007199254740993`), []byte(`123456789012345678901234567890`),
	[]byte(`null`), []byte(`true`), []byte(`false`), []byte(` \n\tnull `), []byte(`nul`), []byte(`tru`),
	[]byte(`[]`), []byte(`{}`), []byte(`[1,"a\n",{"ké":[true,null,{"x":"caf\xc3\xa9 \xff"}]},1e5]`), []byte(`{"a":{"b":{"c":[1,2,{"d":"😀"}]}},"a":2}`),
	[]byte(`[[[[[[[[[[[[[[[[[[[[1]]]]]]]]]]]]]]]]]]]]`), []byte(`{"k":[{"k":[{"k":[{"k":[]}]}]}]}`), []byte(`[1,2`), []byte(`{"a":1,}`), []byte(`[1 2]`), []byte(`{"\xff":"\xff","é":1}`),
	[]byte(``), []byte(` `), []byte(`x`), []byte("\xc4\xa0null"), []byte(` [ 1 , 2 ] x`),
}

func renderCold(r c18Res) string {
	return fmt.Sprintf("%d %v %s", r.p, r.err, hex.EncodeToString([]byte(r.v)))
}

// coldChildMain is the child's side: called by TestColdChild.
func coldChildMain() {
	op, err := strconv.Atoi(os.Getenv("VERIF_COLD_OP"))
	if err != nil {
		return
	}
	var pv c18Priv
	w := bufio.NewWriter(os.Stdout)
	defer w.Flush()
	for i, d := range coldProbes {
		line := "panic"
		_ = core.Catch(func() error {
			line = renderCold(c18Op(op, append([]byte(nil), d...), &pv))
			return nil
		})
		fmt.Fprintf(w, "COLD %d %s\n", i, line)
	}
}

// coldCheck compares operation op run first thing in a fresh process with the same
// operation run after everything else has run.
func coldCheck(op int) error {
	cmd := exec.Command(os.Args[0], "-test.run", "^TestColdChild$", "-test.count=1")
	cmd.Env = append(os.Environ(), "VERIF_COLD_OP="+strconv.Itoa(op), "VERIF_NOWATCHDOG=1")
	var out bytes.Buffer
	cmd.Stdout = &out
	cmd.Stderr = &out
	if err := cmd.Run(); err != nil {
		return fmt.Errorf("cold-start child for operation %d died: %v\n%s", op, err, lastLines(out.String(), 15))
	}
	cold := map[int]string{}
	for _, line := range strings.Split(out.String(), "\n") {
		f := strings.SplitN(line, " ", 3)
		if len(f) == 3 && f[0] == "COLD" {
			if i, err := strconv.Atoi(f[1]); err == nil {
				cold[i] = f[2]
			}
		}
	}
	if len(cold) != len(coldProbes) {
		return fmt.Errorf("cold-start child for operation %d answered %d of %d probes\n%s", op, len(cold), len(coldProbes), lastLines(out.String(), 15))
	}
	// warm everything up in this process: every operation on every probe
	var pv c18Priv
	for o := 0; o < c18NumOps; o++ {
		for _, d := range coldProbes {
			_ = core.Catch(func() error { c18Op(o, append([]byte(nil), d...), &pv); return nil })
		}
	}
	var fresh c18Priv
	for i, d := range coldProbes {
		warm := "panic"
		_ = core.Catch(func() error {
			warm = renderCold(c18Op(op, append([]byte(nil), d...), &fresh))
			return nil
		})
		if warm != cold[i] {
			return fmt.Errorf("operation %d on %q as the FIRST call of a fresh process gives (%s); after the other functions have run it gives (%s) [p, error, hex of the rendered value]", op, d, cold[i], warm)
		}
	}
	return nil
}

func lastLines(s string, n int) string {
	l := strings.Split(strings.TrimRight(s, "\n"), "\n")
	if len(l) > n {
		l = l[len(l)-n:]
	}
	return strings.Join(l, "\n")
}

// checkCold is the plain check of a cold-start case: Ints = [operation].
func checkCold(c *core.Case) error {
	if len(c.Ints) < 1 || c.Ints[0] < 0 || c.Ints[0] >= c18NumOps {
		return fmt.Errorf("bad case")
	}
	return coldCheck(int(c.Ints[0]))
}

// coldStage runs the cold-start comparison for the operations a property owns.
func (e *env) coldStage(ops ...int) {
	if !e.enumStage("cold-start", fmt.Sprintf("operations %v, each as the first call of a fresh process on %d probe inputs, against the same call made after every other exported function has run", ops, len(coldProbes)), true) {
		return
	}
	for i, op := range ops {
		if !e.cfg.Mine(i) {
			continue
		}
		c := &core.Case{Prop: e.cfg.Prop, Kind: "cold", Ints: []int64{int64(op)}}
		e.r.BeginCase(c)
		err := coldCheck(op)
		for pi := range coldProbes {
			e.r.Eval(core.HashInts(0xc01d, int64(op), int64(pi)), true)
		}
		e.r.Label("cold-start.operation")
		if err != nil {
			e.r.Fail(c, err)
			return
		}
	}
}
