package props

import (
	"bytes"
	"fmt"

	"verifharness/core"
	"verifharness/ref"

	"github.com/willabides/rjson"
)

func init() { Checks["C17"] = CheckC17 }

// c17String checks the two string helpers on one byte string.
func c17String(s []byte, dstScratch []byte) (nontrivial bool, err error) {
	want := ref.ReplaceInvalidUTF8(s)
	if string([]rune(string(s))) != string(want) {
		return false, errOracle
	}
	invalid := !bytes.Equal(want, s)
	if invalid {
		for i := 0; i < len(s); i++ {
			if s[i] >= 0xC2 { // a valid multi-byte rune elsewhere in the string?
				if n := len(ref.ReplaceInvalidUTF8(s[i:minInt(i+4, len(s))])); n >= 0 {
					// cheap test: some multi-byte sequence survived replacement unchanged
				}
			}
		}
		// precise rule: the output contains a multi-byte rune other than the inserted U+FFFD,
		// or the input itself contained a literal U+FFFD
		stripped := bytes.ReplaceAll(want, []byte("\xef\xbf\xbd"), nil)
		for _, c := range stripped {
			if c >= 0x80 {
				nontrivial = true
				break
			}
		}
	}
	in := string(s)
	got := rjson.StdLibCompatibleString(in)
	if got != string(want) {
		return nontrivial, fmt.Errorf("StdLibCompatibleString(%q) = %q; want %q", s, got, want)
	}
	if !invalid && got != in {
		return nontrivial, fmt.Errorf("StdLibCompatibleString is not the identity on valid UTF-8 %q", s)
	}
	if again := rjson.StdLibCompatibleString(got); again != got {
		return nontrivial, fmt.Errorf("StdLibCompatibleString is not idempotent on %q: %q then %q", s, got, again)
	}
	b := rjson.StdLibCompatibleStringBytes(s, nil)
	if !bytes.Equal(b, want) {
		return nontrivial, fmt.Errorf("StdLibCompatibleStringBytes(%q, nil) = %q; want %q", s, b, want)
	}
	dst := append(dstScratch[:0], "DST"...)
	b = rjson.StdLibCompatibleStringBytes(s, dst[:3:3])
	if len(b) < 3 || string(b[:3]) != "DST" || !bytes.Equal(b[3:], want) {
		return nontrivial, fmt.Errorf("StdLibCompatibleStringBytes(%q, \"DST\") = %q; want \"DST\"+%q", s, b, want)
	}
	// destinations with every amount of spare capacity between none and a little more than the
	// output needs (short inputs), or on both sides of the input length and of the output length
	// (long inputs): what the helper reserves up front must not decide what it appends
	{
		var spares []int
		if len(want) <= 24 {
			for sp := 0; sp <= len(want)+2; sp++ {
				spares = append(spares, sp)
			}
		} else {
			spares = []int{0, 1, 2, 3, len(s) - 1, len(s), len(s) + 1, len(s) + 2, len(s) + 3, (len(s) + len(want)) / 2, len(want) - 3, len(want) - 2, len(want) - 1, len(want), len(want) + 1, 2 * len(want)}
		}
		pres := []string{"", "DST"}
		if len(want) > 24 {
			pres = pres[1:]
		}
		if len(want) > 4096 {
			spares = []int{len(s), len(s) + 2, len(want) - 1}
		}
		for _, pre := range pres {
			for _, sp := range spares {
				if sp < 0 {
					continue
				}
				if cap(dstScratch) < len(pre)+sp {
					dstScratch = make([]byte, 0, 2*(len(pre)+sp))
				}
				dst := append(dstScratch[:0], pre...)
				full := dst[:len(pre)+sp]
				for i := len(pre); i < len(full); i++ {
					full[i] = 0xCC
				}
				b = rjson.StdLibCompatibleStringBytes(s, dst[:len(pre):len(pre)+sp])
				if len(b) < len(pre) || string(b[:len(pre)]) != pre || !bytes.Equal(b[len(pre):], want) {
					return nontrivial, fmt.Errorf("StdLibCompatibleStringBytes(%q, dst=%q with %d spare bytes) = %q; want dst+%q", s, pre, sp, b, want)
				}
			}
		}
	}
	// destinations that end in an incomplete multi-byte sequence which the input's first
	// bytes would complete: the result must still be dst ++ oracle(input)
	if len(s) <= 6 || len(s)%7 == 0 {
		for _, pre := range []string{"caf\xc3", "\xe2\x82", "\xf0\x9f", "\xf0\x9f\x98", "\xed", "x\xf4\x8f"} {
			dst := append(dstScratch[:0], pre...)
			b = rjson.StdLibCompatibleStringBytes(s, dst[:len(pre):len(pre)])
			if len(b) < len(pre) || string(b[:len(pre)]) != pre || !bytes.Equal(b[len(pre):], want) {
				return nontrivial, fmt.Errorf("StdLibCompatibleStringBytes(%q, dst=%q) = %q; want dst+%q", s, pre, b, want)
			}
		}
	}
	return nontrivial, nil
}

// cloneTree deep-copies a tree including the bytes of every string.
func cloneTree(v interface{}) interface{} {
	switch x := v.(type) {
	case string:
		return string(append([]byte(nil), x...))
	case []interface{}:
		if x == nil {
			return x
		}
		o := make([]interface{}, len(x))
		for i := range x {
			o[i] = cloneTree(x[i])
		}
		return o
	case map[string]interface{}:
		if x == nil {
			return x
		}
		o := make(map[string]interface{}, len(x))
		for k, e := range x {
			o[string(append([]byte(nil), k...))] = cloneTree(e)
		}
		return o
	}
	return v
}

// scrambleTree overwrites what a caller can overwrite in a result tree.
func scrambleTree(v interface{}) {
	switch x := v.(type) {
	case []interface{}:
		for i := range x {
			scrambleTree(x[i])
			x[i] = "SCRAMBLED"
		}
		full := x[:cap(x)]
		for i := range full {
			full[i] = "CAPFILL"
		}
	case map[string]interface{}:
		for k, e := range x {
			scrambleTree(e)
			x[k] = "SCRAMBLED"
		}
		x["__added"] = 1.0
	}
}

// c17Tree checks the slice/map helpers on one tree (top-level array or object).
func c17Tree(tree interface{}) (skipped bool, err error) {
	want, collide := ref.MapStrings(tree, ref.ReplaceString)
	if collide {
		return true, nil // excluded by the property: keys collide after replacement
	}
	snap := cloneTree(tree)
	var got interface{}
	switch x := tree.(type) {
	case []interface{}:
		got = rjson.StdLibCompatibleSlice(x)
	case map[string]interface{}:
		got = rjson.StdLibCompatibleMap(x)
	default:
		return true, nil
	}
	if !ref.Equal(got, want) {
		return false, fmt.Errorf("helper result %.300s; want %.300s", fmt.Sprintf("%#v", got), fmt.Sprintf("%#v", want))
	}
	if !ref.Equal(tree, snap) {
		return false, fmt.Errorf("helper modified its argument: now %.300s, was %.300s", fmt.Sprintf("%#v", tree), fmt.Sprintf("%#v", snap))
	}
	scrambleTree(got)
	if !ref.Equal(tree, snap) {
		return false, fmt.Errorf("modifying the helper's result changed its argument (shared containers): now %.300s, was %.300s", fmt.Sprintf("%#v", tree), fmt.Sprintf("%#v", snap))
	}
	return false, nil
}

// c17BuiltTree checks the helpers on a hand-built tree nested d levels deep (slices and maps
// alternating) whose innermost container holds an invalid-UTF-8 string value and key.
func c17BuiltTree(d int) error {
	var tree interface{} = map[string]interface{}{"k\xfe": "v\xc0\xaf", "ok": "plain"}
	for i := 1; i < d; i++ {
		if i%2 == 1 {
			tree = []interface{}{"s\xff", tree}
		} else {
			tree = map[string]interface{}{"m": tree}
		}
	}
	_, err := c17Tree(tree)
	return err
}

// c17Doc: helper(ReadValue(doc)) equals what encoding/json decodes, when no keys collide.
func c17Doc(doc []byte) (applicable bool, err error) {
	v, _, rerr := rjson.ReadValue(doc)
	sv, _, serr := ref.StdDecode(doc)
	if rerr != nil || serr != nil || ref.HasRiskyNumber(doc) {
		return false, nil // (numbers that strconv, hence encoding/json, mis-scales: ref/number.go)
	}
	if _, collide := ref.MapStrings(v, ref.ReplaceString); collide {
		return false, nil
	}
	var got interface{}
	switch x := v.(type) {
	case []interface{}:
		got = rjson.StdLibCompatibleSlice(x)
	case map[string]interface{}:
		got = rjson.StdLibCompatibleMap(x)
	case string:
		got = rjson.StdLibCompatibleString(x)
	default:
		got = v
	}
	if !ref.Equal(got, sv) {
		return true, fmt.Errorf("helper(ReadValue(doc)) = %.300s; encoding/json decodes %.300s", fmt.Sprintf("%#v", got), fmt.Sprintf("%#v", sv))
	}
	return true, nil
}

// CheckC17: Kind "string": In is the byte string. Kind "doc": In is a JSON document; its
// decoded tree is the helpers' argument (trees are always reproducible as documents here).
func CheckC17(c *core.Case) error {
	if c.Kind == "cold" {
		return checkCold(c)
	}
	if c.Kind == "built-tree" {
		if len(c.Ints) < 1 || c.Ints[0] < 1 || c.Ints[0] > 1<<22 {
			return fmt.Errorf("bad case")
		}
		return c17BuiltTree(int(c.Ints[0]))
	}
	if c.Kind == "doc" || c.Kind == "tree" {
		v, _, err := ref.Decode(c.In)
		if err != nil {
			return nil
		}
		if _, err := c17Tree(v); err != nil {
			return err
		}
		_, err = c17Doc(c.In)
		return err
	}
	_, err := c17String([]byte(c.In), make([]byte, 0, 64))
	return err
}
