package props

import (
	"bytes"
	"fmt"

	"verifharness/core"
	"verifharness/ref"

	"github.com/willabides/rjson"
)

func init() { Checks["C16"] = CheckC16 }

// dstFuncs are the functions that take a destination byte slice and append to it.
var dstFuncs = []struct {
	name string
	run  func(in, dst []byte) (out []byte, err error)
}{
	{"ReadStringBytes", func(in, dst []byte) ([]byte, error) { o, _, e := rjson.ReadStringBytes(in, dst); return o, e }},
	{"UnescapeStringContent", func(in, dst []byte) ([]byte, error) { o, _, e := rjson.UnescapeStringContent(in, dst); return o, e }},
	{"StdLibCompatibleStringBytes", func(in, dst []byte) ([]byte, error) { return rjson.StdLibCompatibleStringBytes(in, dst), nil }},
}

const canary = 0xCC

// mkDst builds a destination of the given length and capacity: contents are a fixed
// pattern, the spare capacity is filled with a canary byte.
func mkDst(l, c int) []byte {
	if c < l {
		c = l
	}
	b := make([]byte, c)
	for i := range b {
		if i < l {
			b[i] = byte(i*7 + 1)
		} else {
			b[i] = canary
		}
	}
	return b[:l]
}

// c16Dst: append semantics of one destination-taking function.
func c16Dst(fn int, in []byte, dl, dc int) (grew bool, ok bool, err error) {
	f := dstFuncs[fn%len(dstFuncs)]
	work := append([]byte(nil), in...) // the library only ever sees the working copy
	base, berr := f.run(work, nil)
	if !bytes.Equal(work, in) {
		return false, false, fmt.Errorf("%s modified its input: now %q", f.name, work)
	}
	if berr != nil {
		return false, false, nil
	}
	baseSnap := append([]byte(nil), base...)
	dst := mkDst(dl, dc)
	dstSnap := append([]byte(nil), dst...)
	out, oerr := f.run(work, dst)
	if !bytes.Equal(work, in) {
		return false, true, fmt.Errorf("%s modified its input: now %q", f.name, work)
	}
	if oerr != nil {
		return false, true, fmt.Errorf("%s succeeds with an empty destination but fails with a destination of len %d cap %d: %v", f.name, dl, cap(dst), oerr)
	}
	if len(out) < dl || !bytes.Equal(out[:dl], dstSnap) {
		return false, true, fmt.Errorf("%s(len %d cap %d destination): existing contents not preserved: got %q, destination was %q", f.name, dl, cap(dst), out[:minInt(len(out), dl)], dstSnap)
	}
	if !bytes.Equal(out[dl:], baseSnap) {
		return false, true, fmt.Errorf("%s(len %d cap %d destination) appended %q; with an empty destination it produces %q", f.name, dl, cap(dst), out[dl:], baseSnap)
	}
	// what was returned owns its memory: overwriting the input afterwards changes neither result
	for i := range work {
		work[i] = 0xAA
	}
	if !bytes.Equal(base, baseSnap) {
		return false, true, fmt.Errorf("%s(input, nil destination): the returned bytes changed when the input was overwritten afterwards (they share memory with the input): %.60q -> %.60q", f.name, baseSnap, base)
	}
	if !bytes.Equal(out[dl:], baseSnap) {
		return false, true, fmt.Errorf("%s(len %d cap %d destination): the returned bytes changed when the input was overwritten afterwards: %.60q -> %.60q", f.name, dl, cap(dst), baseSnap, out[dl:])
	}
	return dc-dl < len(baseSnap), true, nil
}

// c16Scratch: results of the scratch-taking functions do not depend on the scratch's prior
// contents, and the returned strings survive overwriting input and scratch.
func c16Scratch(in []byte, sl, sc int) (ok bool, err error) {
	work := append([]byte(nil), in...) // the library sees work; we overwrite it afterwards
	want, wp, werr := rjson.ReadString(append([]byte(nil), in...), nil)
	scr := mkDst(sl, sc)
	got, gp, gerr := rjson.ReadString(work, &scr)
	if (gerr == nil) != (werr == nil) || (werr == nil && (got != want || gp != wp)) {
		return werr == nil, fmt.Errorf("ReadString with a len %d cap %d scratch = (%q, %d, %v); with nil scratch (%q, %d, %v)", sl, sc, got, gp, gerr, want, wp, werr)
	}
	var dv = "initial"
	scr2 := mkDst(sl, sc)
	dp, derr := rjson.DecodeString(work, &dv, &scr2)
	if werr == nil && (derr != nil || dv != want || dp != wp) {
		return true, fmt.Errorf("DecodeString with a len %d cap %d scratch = (%q, %d, %v); ReadString with nil scratch gives (%q, %d)", sl, sc, dv, dp, derr, want, wp)
	}
	if !bytes.Equal(work, in) {
		return werr == nil, fmt.Errorf("ReadString/DecodeString modified the input")
	}
	// overwrite input and scratch (whole backing arrays); the returned strings must not change
	snapGot, snapDv := string(append([]byte(nil), got...)), string(append([]byte(nil), dv...))
	for i := range work {
		work[i] = 0xAA
	}
	for _, s := range [][]byte{scr[:cap(scr)], scr2[:cap(scr2)]} {
		for i := range s {
			s[i] = 0xAA
		}
	}
	if got != snapGot {
		return werr == nil, fmt.Errorf("string returned by ReadString changed from %q to %q after input and scratch were overwritten", snapGot, got)
	}
	if dv != snapDv {
		return werr == nil, fmt.Errorf("string stored by DecodeString changed from %q to %q after input and scratch were overwritten", snapDv, dv)
	}
	return werr == nil, nil
}

// c16Input: no entry point writes to its input; trees and strings returned by the generic
// decoders survive overwriting the input.
func c16Input(in []byte) (tree bool, err error) {
	work := append([]byte(nil), in...)
	for i := range c10Entries {
		en := &c10Entries[i]
		perr := core.Catch(func() error { en.run(work, nil); return nil })
		if perr != nil {
			return false, nil // totality is C10's subject
		}
		if !bytes.Equal(work, in) {
			return false, fmt.Errorf("%s modified its input: now %q", en.name, work)
		}
	}
	// handler traversals with an answering handler (exact offsets) also must not write
	for _, k := range []byte{'[', '{'} {
		h := &recHandler{decide: bitStrategy(0xAAAAAAAAAAAAAAAA), limit: len(in) + 1}
		traverse(k, work, h, &rjson.Buffer{})
		if !bytes.Equal(work, in) {
			return false, fmt.Errorf("handler traversal %c modified its input", k)
		}
	}
	var vr rjson.ValueReader
	v1, _, e1 := vr.ReadValue(work)
	v2, _, e2 := rjson.ReadValue(work)
	ss := rjson.StdLibCompatibleString(string(work))
	snapSS := string(append([]byte(nil), ss...))
	var s1, s2 interface{}
	if e1 == nil {
		s1 = cloneTree(v1)
	}
	if e2 == nil {
		s2 = cloneTree(v2)
	}
	for i := range work {
		work[i] = 0xAA
	}
	// use the reader again on other data - a failing read, then successful ones: its scratch
	// buffers and whatever it recycles internally get overwritten
	vr.ReadValue([]byte(`[["x\n",2],[3,`))
	vr.ReadValue([]byte(`{"a\t":[1,2],"b":{"c":`))
	vr.ReadValue([]byte(`["\n\n\n\n\n\n\n\n\n\n\n\n\n\n\n\n",{"\t\t\t\t\t\t\t\t":["\r\r\r\r\r\r\r\r\r\r\r\r"]}]`))
	vr.ReadValue([]byte(`[[10,11],[12,13],[14,15],{"k":[16,17]},["s","t"]]`))
	vr.ReadValue([]byte(`{"k":{"k":{"k":"v\n"}},"l":[[true,false],[null,null]]}`))
	if e1 == nil && !ref.Equal(v1, s1) {
		return true, fmt.Errorf("tree returned by ValueReader.ReadValue changed after the input was overwritten and the reader reused: now %.200s, was %.200s", fmt.Sprintf("%#v", v1), fmt.Sprintf("%#v", s1))
	}
	if e2 == nil && !ref.Equal(v2, s2) {
		return true, fmt.Errorf("tree returned by ReadValue changed after the input was overwritten: now %.200s, was %.200s", fmt.Sprintf("%#v", v2), fmt.Sprintf("%#v", s2))
	}
	if ss != snapSS {
		return e1 == nil, fmt.Errorf("string returned by StdLibCompatibleString changed after its argument's bytes were overwritten")
	}
	// the tree helpers' "input" is a value tree: what they return must not change when the
	// caller later modifies that tree (overwrites elements, fills spare capacity, adds keys)
	if e2 == nil {
		arg := cloneTree(s2)
		var out interface{}
		switch x := arg.(type) {
		case []interface{}:
			out = rjson.StdLibCompatibleSlice(x)
		case map[string]interface{}:
			out = rjson.StdLibCompatibleMap(x)
		}
		if out != nil {
			snapOut := cloneTree(out)
			scrambleTree(arg)
			if !ref.Equal(out, snapOut) {
				return true, fmt.Errorf("tree returned by a StdLibCompatible helper changed after its argument tree was modified: now %.200s, was %.200s", fmt.Sprintf("%#v", out), fmt.Sprintf("%#v", snapOut))
			}
		}
	}
	return e1 == nil, nil
}

// CheckC16: Kind "dst": Ints=[fn, len, cap]; "scratch": Ints=[len, cap]; otherwise input immutability/ownership.
func CheckC16(c *core.Case) error {
	in := []byte(c.In)
	switch c.Kind {
	case "dst":
		_, _, err := c16Dst(int(c.Ints[0]), in, int(c.Ints[1]), int(c.Ints[2]))
		return err
	case "scratch":
		_, err := c16Scratch(in, int(c.Ints[0]), int(c.Ints[1]))
		return err
	}
	_, err := c16Input(in)
	return err
}
