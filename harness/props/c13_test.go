package props

import (
	"testing"

	"verifharness/core"
)

func TestC13(t *testing.T) {
	runProp(t, "C13", func(e *env) {
		e.coldStage(11, 17, 18, 19, 26)
		r := e.r
		eval := func(kind string, in []byte) error {
			decisive, err := c13Check(in, true)
			key := core.Hash(in)
			r.Eval(key, decisive)
			if decisive && r.WantSample(key) {
				r.SampleInput(key, kind, in)
			}
			return err
		}
		run := func(kind string, in []byte) bool {
			r.Begin(kind, in)
			if err := core.Catch(func() error { return eval(kind, in) }); err != nil {
				r.Fail(caseOf("C13", kind, in, err), err)
				return false
			}
			return true
		}
		// 1. every byte value after every whitespace prefix (complete)
		var prefixes [][]byte
		ws := []byte(" \t\r\n")
		prefixes = append(prefixes, nil)
		for l := 1; l <= 3; l++ {
			n := 1
			for k := 0; k < l; k++ {
				n *= 4
			}
			for x := 0; x < n; x++ {
				p := make([]byte, l)
				y := x
				for k := 0; k < l; k++ {
					p[k] = ws[y%4]
					y /= 4
				}
				prefixes = append(prefixes, p)
			}
		}
		for _, near := range []byte{0x0b, 0x0c, 0x00, 0xa0, 0x85, 0x1f, 0x7f} {
			prefixes = append(prefixes, []byte{near}, []byte{' ', near}, []byte{near, ' '}, []byte{'\n', near, '\t'})
		}
		conts := []string{"", "x", " ", "ull", "rue", "alse", "1", "\""}
		if e.enumStage("token-table", "256 byte values x 113 whitespace/near-whitespace prefixes x 8 continuations", true) {
			buf := make([]byte, 0, 16)
		tt:
			for pi, pre := range prefixes {
				if !e.cfg.Mine(pi) {
					continue
				}
				for b := 0; b < 256; b++ {
					for _, ct := range conts {
						buf = append(append(append(buf[:0], pre...), byte(b)), ct...)
						if !run("token-table", buf) {
							break tt
						}
					}
				}
				if !run("token-table", pre) {
					break
				}
			}
		}
		// 1a. well-formed multi-byte UTF-8 sequences where whitespace or a token may start (rune-
		// based classification: code points whose low byte is a whitespace byte, Unicode spaces)
		if e.enumStage("multibyte", "every 2-byte UTF-8 sequence, U+2000..U+20FF, U+3000, U+FEFF and U+1F600..U+1F63F after 4 whitespace prefixes, in front of 6 tokens", true) {
			var seqs [][]byte
			for a := 0xc2; a <= 0xdf; a++ {
				for b := 0x80; b <= 0xbf; b++ {
					seqs = append(seqs, []byte{byte(a), byte(b)})
				}
			}
			for cp := rune(0x2000); cp <= 0x20ff; cp++ {
				seqs = append(seqs, []byte(string(cp)))
			}
			seqs = append(seqs, []byte("\u3000"), []byte("\ufeff"), []byte("\u0920"), []byte("\u1680"))
			for cp := rune(0x1f600); cp <= 0x1f63f; cp++ {
				seqs = append(seqs, []byte(string(cp)))
			}
			buf := make([]byte, 0, 32)
		mb:
			for si, sq := range seqs {
				if !e.cfg.Mine(si) {
					continue
				}
				for _, pre := range []string{"", " ", "\n\t", "    \r\n   "} {
					for _, tok := range []string{"null", "true", "1", `"x"`, "[]", ""} {
						buf = append(append(append(buf[:0], pre...), sq...), tok...)
						if !run("multibyte", buf) {
							break mb
						}
					}
				}
			}
		}
		// 1b. long whitespace runs (word-at-a-time scanners): pure runs of length 0..40 x every
		// byte, and runs of length 1..32 with one near-whitespace byte at every position,
		// followed by nothing / more whitespace and a token
		if e.enumStage("long-prefixes", "whitespace runs of length 0..40 (4 mixtures) x 256 bytes; runs of length 1..32 with one of 10 non-whitespace bytes <= 0x20 (or 0x85, 0xa0) at every position x 5 tails", true) {
			buf := make([]byte, 0, 96)
			mixes := []string{" ", "\n", " \t\r\n", "\t\t \n \r"}
			idx := 0
		lp:
			for L := 0; L <= 40; L++ {
				for _, mix := range mixes {
					idx++
					if !e.cfg.Mine(idx) {
						continue
					}
					pre := make([]byte, L)
					for i := range pre {
						pre[i] = mix[i%len(mix)]
					}
					for b := 0; b < 256; b++ {
						buf = append(append(buf[:0], pre...), byte(b))
						if !run("long-prefix", buf) {
							break lp
						}
					}
					if L == 0 || L > 32 {
						continue
					}
					for pos := 0; pos < L; pos++ {
						for _, bad := range []byte{0x00, 0x01, 0x08, 0x0b, 0x0c, 0x0e, 0x1f, 0x7f, 0x85, 0xa0} {
							for _, tail := range []string{"", "        ", "true", "        true", " \n\t\r    [1]"} {
								buf = append(append(buf[:0], pre...), tail...)
								buf[pos] = bad
								if !run("long-prefix.bad", buf) {
									break lp
								}
							}
						}
					}
				}
			}
		}
		// 2. every one-byte corruption, truncation and next byte of each literal (complete)
		if e.enumStage("literals", "{null,true,false} x 6 whitespace prefixes x (every truncation; every position x 256 substitutions and 256 insertions, followed by 6 trailers of 0..18 bytes)", true) {
			buf := make([]byte, 0, 16)
		lits:
			for _, lit := range []string{"null", "true", "false"} {
				for _, pre := range []string{"", " ", "\t\r\n ", "\n", "\x0c", " \x00"} {
					base := []byte(pre + lit)
					for cut := 0; cut <= len(base); cut++ {
						if !run("literal.trunc", base[:cut]) {
							break lits
						}
					}
					// what follows the (corrupted) literal: nothing, or enough bytes for readers
					// that load 4, 8 or 16 bytes at once
					for _, trail := range []string{"", ",", ", 1]", "      ", `, "next": 1}`, "]]]]]]]]]]]]]]]]]]"} {
						for pos := 0; pos <= len(base); pos++ {
							for b := 0; b < 256; b++ {
								if pos < len(base) {
									buf = append(append(buf[:0], base...), trail...)
									buf[pos] = byte(b)
									if !run("literal.subst", buf) {
										break lits
									}
								}
								buf = append(append(append(append(buf[:0], base[:pos]...), byte(b)), base[pos:]...), trail...)
								if !run("literal.insert", buf) {
									break lits
								}
							}
						}
					}
				}
			}
		}
		// 3. the shared byte-level generators, for exclusivity in depth
		e.feed(feedOpts{counts: 2, templateSweep: true, shortlexQ: 4, shortlexT: 5, sweepQ: 60, sweepT: 3000, mutQ: 20000, mutT: 1000000, nextByte: true, alignment: true},
			func(kind string, in []byte) error { return eval(kind, in) })
	})
}
