package props

import (
	"fmt"
	"math/big"
	"testing"

	"verifharness/core"
	"verifharness/gen"

	"pgregory.net/rapid"
)

func TestC05(t *testing.T) {
	runProp(t, "C05", func(e *env) {
		r := e.r
		eval := func(kind string, in []byte) error {
			for ri := range c05Readers {
				nt, err := c05One(&c05Readers[ri], in)
				if err == errOracle {
					r.Inconclusive("reference integer rule and json.Unmarshal disagree", &core.Case{Prop: "C05", Kind: kind, In: append([]byte(nil), in...), Ints: []int64{int64(ri)}})
					return nil
				}
				key := core.HashInts(core.Hash(in), int64(ri))
				r.Eval(key, nt)
				if nt && r.WantSample(key) {
					r.SampleInput(key, kind, in, "reader", c05Readers[ri].name)
				}
				if err != nil {
					return &caseErr{&core.Case{Prop: "C05", Kind: kind, In: append([]byte(nil), in...), Ints: []int64{int64(ri)}, Strs: []string{c05Readers[ri].name}}, err}
				}
			}
			return nil
		}
		run := func(kind string, in []byte) bool {
			r.Begin(kind, in)
			if err := core.Catch(func() error { return eval(kind, in) }); err != nil {
				r.Fail(caseOf("C05", kind, in, err), err)
				return false
			}
			return true
		}
		// 1. complete windows round every type bound and digit-count switch-over
		W := int64(e.cfg.Pick(400, 60000))
		bounds := []string{"0", "2147483648", "4294967296", "9223372036854775808", "18446744073709551616",
			"100000000000000000", "1000000000000000000", "10000000000000000000", "100000000000000000000",
			"1844674407370955161", "1844674407370955162", "922337203685477580", "65536", "999999999999999999"}
		if e.enumStage("windows", fmt.Sprintf("every integer in [B-%d, B+%d] for %d bounds B (type bounds, 18/19/20-digit switch-overs, uint64 cutoff), both signs, x forms {plain, leading zero, ws prefix} and for a stride x 256 next bytes", W, W, len(bounds)), true) {
			buf := make([]byte, 0, 64)
			idx := 0
		win:
			for _, bs := range bounds {
				B, _ := new(big.Int).SetString(bs, 10)
				v := new(big.Int).Sub(B, big.NewInt(W))
				for k := int64(0); k <= 2*W; k++ {
					idx++
					if e.cfg.Mine(idx) {
						s := v.String() // may be negative near 0
						for _, sign := range []string{"", "-"} {
							if sign == "-" && s[0] == '-' {
								continue
							}
							buf = append(append(buf[:0], sign...), s...)
							if !run("window", buf) {
								break win
							}
							if k%97 == 0 {
								plain := append([]byte(nil), buf...)
								for _, form := range [][2]string{{" ", ""}, {"\t\n", " "}, {"   ", ""}, {"        ", ""}, {"\n\n\n\n\n\n\n\n\n\n\n\n\n", ""}, {"                 ", ""}, {"                  ", ""}, {"                   ", ","}, {"                                ", ""}, {"0", ""}, {"", "0"}, {"", ".0"}, {"", "e0"}, {"", "."}, {"", "E"}} {
									buf = append(append(append(buf[:0], form[0]...), plain...), form[1]...)
									if !run("window.form", buf) {
										break win
									}
								}
								for b := 0; b < 256; b++ {
									buf = append(append(buf[:0], plain...), byte(b))
									if !run("window.nextbyte", buf) {
										break win
									}
								}
							}
						}
					}
					v.Add(v, big.NewInt(1))
				}
			}
		}
		// 2. free digit strings and non-integer forms
		e.rapidStage("digits", "rapid", e.cfg.N(60000, 4000000), func(rt *rapid.T) {
			var b []byte
			b = append(b, []string{"", "", " ", "\n\t "}[rapid.IntRange(0, 3).Draw(rt, "pre")]...)
			b = append(b, []string{"", "", "-", "+", "--", "- "}[rapid.IntRange(0, 5).Draw(rt, "sign")]...)
			n := rapid.IntRange(0, 40).Draw(rt, "ndigits")
			if rapid.IntRange(0, 2).Draw(rt, "len1722?") == 0 {
				n = rapid.IntRange(17, 22).Draw(rt, "ndigits2")
			}
			for i := 0; i < n; i++ {
				b = append(b, byte('0'+rapid.IntRange(0, 9).Draw(rt, "d")))
			}
			b = append(b, []string{"", "", "", ".", ".0", ".5", "e", "e1", "E+2", "e-1", " ", "x", ",", "]", "\x00", "-", "+", "1e", ".e1"}[rapid.IntRange(0, 18).Draw(rt, "suffix")]...)
			r.Begin("digits", b)
			if err := core.Catch(func() error { return eval("digits", b) }); err != nil {
				failRapid(rt, r, caseOf("C05", "digits", b, err), err)
			}
		})
		// 3. pool numbers and other tokens with every next byte
		if e.enumStage("pool", "number pool and non-numeric tokens x 256 next bytes", true) {
			toks := append([]string{}, gen.Nums...)
			toks = append(toks, "-", "- 1", "+1", "-0", "-00", "00", "01", "-01", "0x1", "1.", "1e", "1e+", "null", "true", `"1"`, "[1]", "{}", "", " ", "٣", "1_000", "1,000")
			buf := make([]byte, 0, 64)
		pool:
			for ti, tok := range toks {
				if !e.cfg.Mine(ti) {
					continue
				}
				if !run("pool", []byte(tok)) {
					break
				}
				for b := 0; b < 256; b++ {
					buf = append(append(buf[:0], tok...), byte(b))
					if !run("pool.nextbyte", buf) {
						break pool
					}
				}
			}
		}
		e.feed(feedOpts{shortlexQ: 3, shortlexT: 5, sweepQ: 30, sweepT: 2000}, func(kind string, in []byte) error { return eval(kind, in) })
	})
}
