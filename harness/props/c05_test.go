package props

import (
	"fmt"
	"math/big"
	"strings"
	"testing"

	"verifharness/core"
	"verifharness/gen"

	"pgregory.net/rapid"
)

func TestC05(t *testing.T) {
	runProp(t, "C05", func(e *env) {
		e.coldStage(7, 16, 23, 27)
		r := e.r
		eval := func(kind string, in []byte) error {
			for ri := range c05Readers {
				nt, err := c05One(&c05Readers[ri], in)
				if err == errOracle {
					r.Inconclusive("reference integer rule and json.Unmarshal disagree", &core.Case{Prop: "C05", Kind: kind, In: append([]byte(nil), in...), Ints: []int64{int64(ri)}})
					return nil
				}
				key := core.HashInts(core.Hash(in), int64(ri))
				r.Eval(key, nt)
				if nt && r.WantSample(key) {
					r.SampleInput(key, kind, in, "reader", c05Readers[ri].name)
				}
				if err != nil {
					return &caseErr{&core.Case{Prop: "C05", Kind: kind, In: append([]byte(nil), in...), Ints: []int64{int64(ri)}, Strs: []string{c05Readers[ri].name}}, err}
				}
			}
			return nil
		}
		run := func(kind string, in []byte) bool {
			r.Begin(kind, in)
			if err := core.Catch(func() error { return eval(kind, in) }); err != nil {
				r.Fail(caseOf("C05", kind, in, err), err)
				return false
			}
			return true
		}
		longTail := []byte(`, "next": [1, 2, 3], "and": {"more": "data"}, "padding": "xxxxxxxxxxxxxxxxxxxxxxxxxxxxxxxxxxxxxxxxxxxxxxxxxxxxxxxxxxxxxxxxxxxxxxxxxxxxxxx"}`)
		// 1. complete windows round every type bound and digit-count switch-over
		W := int64(e.cfg.Pick(400, 60000))
		bounds := []string{"0", "2147483648", "4294967296", "9223372036854775808", "18446744073709551616",
			"100000000000000000", "1000000000000000000", "10000000000000000000", "100000000000000000000",
			"1844674407370955161", "1844674407370955162", "922337203685477580", "65536", "999999999999999999"}
		if e.enumStage("windows", fmt.Sprintf("every integer in [B-%d, B+%d] for %d bounds B (type bounds, 18/19/20-digit switch-overs, uint64 cutoff), both signs, x forms {plain, leading zero, ws prefix} and for a stride x 256 next bytes", W, W, len(bounds)), true) {
			buf := make([]byte, 0, 64)
			idx := 0
		win:
			for _, bs := range bounds {
				B, _ := new(big.Int).SetString(bs, 10)
				v := new(big.Int).Sub(B, big.NewInt(W))
				for k := int64(0); k <= 2*W; k++ {
					idx++
					if e.cfg.Mine(idx) {
						s := v.String() // may be negative near 0
						for _, sign := range []string{"", "-"} {
							if sign == "-" && s[0] == '-' {
								continue
							}
							buf = append(append(buf[:0], sign...), s...)
							if !run("window", buf) {
								break win
							}
							// the same literal as the first token of a longer input (readers that switch
							// to a windowed / word-at-a-time path when enough bytes remain)
							buf = append(buf, longTail...)
							if !run("window.longtail", buf) {
								break win
							}
							buf = buf[:len(buf)-len(longTail)]
							if k%97 == 0 {
								plain := append([]byte(nil), buf...)
								for _, form := range [][2]string{{" ", ""}, {"\t\n", " "}, {"   ", ""}, {"        ", ""}, {"\n\n\n\n\n\n\n\n\n\n\n\n\n", ""}, {"                 ", ""}, {"                  ", ""}, {"                   ", ","}, {"                                ", ""}, {"0", ""}, {"", "0"}, {"", ".0"}, {"", "e0"}, {"", "."}, {"", "E"},
									// another number close behind (readers that look ahead by a fixed distance)
									{"", ",5"}, {"", ", 5"}, {"", ",25]"}, {"", " ,7]"}, {"", ",1700000000000000001]"}, {"", "]9"}, {"", "\n12"}, {"", ", 123"}, {"", ",\t\t4"}, {"", ",  \"5\""}} {
									buf = append(append(append(buf[:0], form[0]...), plain...), form[1]...)
									if !run("window.form", buf) {
										break win
									}
								}
								for b := 0; b < 256; b++ {
									buf = append(append(buf[:0], plain...), byte(b))
									if !run("window.nextbyte", buf) {
										break win
									}
								}
							}
						}
					}
					v.Add(v, big.NewInt(1))
				}
			}
		}
		// 2. free digit strings and non-integer forms
		e.rapidStage("digits", "rapid", e.cfg.N(60000, 4000000), func(rt *rapid.T) {
			var b []byte
			b = append(b, []string{"", "", " ", "\n\t "}[rapid.IntRange(0, 3).Draw(rt, "pre")]...)
			b = append(b, []string{"", "", "-", "+", "--", "- "}[rapid.IntRange(0, 5).Draw(rt, "sign")]...)
			n := rapid.IntRange(0, 40).Draw(rt, "ndigits")
			if rapid.IntRange(0, 2).Draw(rt, "len1722?") == 0 {
				n = rapid.IntRange(17, 22).Draw(rt, "ndigits2")
			}
			if rapid.IntRange(0, 5).Draw(rt, "alias?") == 0 {
				// k*2^w + r: congruent to a small value modulo a power of two
				v := new(big.Int).Lsh(big.NewInt(int64(rapid.IntRange(1, 1<<20).Draw(rt, "k"))), uint(rapid.IntRange(8, 520).Draw(rt, "w")))
				v.Add(v, new(big.Int).SetUint64(splitmix(rapid.Uint64().Draw(rt, "r"))>>uint(rapid.IntRange(0, 63).Draw(rt, "rshift"))))
				b = append(b, v.String()...)
				n = 0
			}
			for i := 0; i < n; i++ {
				b = append(b, byte('0'+rapid.IntRange(0, 9).Draw(rt, "d")))
			}
			b = append(b, []string{"", "", "", ".", ".0", ".5", "e", "e1", "E+2", "e-1", " ", "x", ",", "]", "\x00", "-", "+", "1e", ".e1", ",5", ", 5", ",25]", " 7", ",12345678901234567890", "]9", ",\"1\""}[rapid.IntRange(0, 25).Draw(rt, "suffix")]...)
			r.Begin("digits", b)
			if err := core.Catch(func() error { return eval("digits", b) }); err != nil {
				failRapid(rt, r, caseOf("C05", "digits", b, err), err)
			}
		})
		// 2a. every digit count 1..25 with something close behind the literal (fixed-distance
		// look-ahead, fast paths keyed on the digit count)
		if e.enumStage("lengths", "literals of 1..25 digits (ones, nines, 1 then zeros, mixed) x prefixes {none, -, space, newline-tab-minus} x 22 tails (terminators followed by more digits, fractions, exponents, strings)", true) {
			tails := []string{"", ",", ",5", ", 5", ",25]", " ,7]", ",1700000000000000001]", "]9", "\n12", ", 123", ",\t\t4", ",  \"5\"", " 5", "  55", "}1", ":1", ".5,1", "e1,1", "x1", "\x001", ",-1", ",0.5"}
			idx := 0
		lengths:
			for n := 1; n <= 25; n++ {
				for _, body := range []string{strings.Repeat("1", n), strings.Repeat("9", n), "1" + strings.Repeat("0", n-1), ("18446744073709551615922337203685")[:n], ("92233720368547758074294967295")[:n]} {
					for _, pre := range []string{"", "-", " ", "\n\t-"} {
						idx++
						if !e.cfg.Mine(idx) {
							continue
						}
						for _, tail := range tails {
							if !run("lengths", []byte(pre+body+tail)) {
								break lengths
							}
						}
					}
				}
			}
		}
		// 2b. wrap-around aliases: k*M + r for moduli M at which an accumulator of some width (or a
		// digit-count cut) would wrap, r an in-range value or a type bound
		if e.enumStage("wraps", "k*M + r, both signs: M in {2^8 .. 2^512 (21 widths), 10^9 .. 10^40 (9 powers)} x k in {1, 2, 3, 5, 10, 255, 2^32+1, 10^19+3} x r in {0, 1, 7, 255, 2^31-1, 2^31, 2^32-1, 2^32, 2^63-1, 2^63, 2^64-1, 2^64, M-1, M/2}", true) {
			var mods []*big.Int
			for _, w := range []uint{8, 16, 24, 31, 32, 33, 48, 52, 53, 62, 63, 64, 65, 96, 127, 128, 129, 192, 255, 256, 512} {
				mods = append(mods, new(big.Int).Lsh(big.NewInt(1), w))
			}
			for _, n := range []int64{9, 10, 17, 18, 19, 20, 21, 38, 40} {
				mods = append(mods, new(big.Int).Exp(big.NewInt(10), big.NewInt(n), nil))
			}
			bigOf := func(s string) *big.Int { v, _ := new(big.Int).SetString(s, 10); return v }
			ks := []*big.Int{big.NewInt(1), big.NewInt(2), big.NewInt(3), big.NewInt(5), big.NewInt(10), big.NewInt(255), bigOf("4294967297"), bigOf("10000000000000000003")}
			rs := []*big.Int{big.NewInt(0), big.NewInt(1), big.NewInt(7), big.NewInt(255), bigOf("2147483647"), bigOf("2147483648"), bigOf("4294967295"), bigOf("4294967296"),
				bigOf("9223372036854775807"), bigOf("9223372036854775808"), bigOf("18446744073709551615"), bigOf("18446744073709551616")}
			idx := 0
		wraps:
			for _, M := range mods {
				rr := append(append([]*big.Int{}, rs...), new(big.Int).Sub(M, big.NewInt(1)), new(big.Int).Rsh(M, 1))
				for _, k := range ks {
					for _, rem := range rr {
						idx++
						if !e.cfg.Mine(idx) {
							continue
						}
						v := new(big.Int).Mul(k, M)
						v.Add(v, rem)
						for _, lit := range []string{v.String(), "-" + v.String(), v.String() + ",", " " + v.String() + "]"} {
							if !run("wrap", []byte(lit)) {
								break wraps
							}
						}
					}
				}
			}
		}
		// 3. pool numbers and other tokens with every next byte
		if e.enumStage("pool", "number pool and non-numeric tokens x 256 next bytes", true) {
			toks := append([]string{}, gen.Nums...)
			toks = append(toks, "-", "- 1", "+1", "-0", "-00", "00", "01", "-01", "0x1", "1.", "1e", "1e+", "null", "true", `"1"`, "[1]", "{}", "", " ", "٣", "1_000", "1,000")
			buf := make([]byte, 0, 64)
		pool:
			for ti, tok := range toks {
				if !e.cfg.Mine(ti) {
					continue
				}
				if !run("pool", []byte(tok)) {
					break
				}
				for b := 0; b < 256; b++ {
					buf = append(append(buf[:0], tok...), byte(b))
					if !run("pool.nextbyte", buf) {
						break pool
					}
				}
			}
		}
		e.feed(feedOpts{counts: 2, shortlexQ: 3, shortlexT: 5, sweepQ: 30, sweepT: 2000, numShapes: 1}, func(kind string, in []byte) error { return eval(kind, in) })
		// 2c. complete position x byte sweep (every truncation, 256 substitutions, 256 insertions at
		// every position) of signed / unsigned integer tokens with and without whitespace round
		// them: every byte that can stand between the sign and the first digit, inside the
		// digits, before and after the token
		if e.enumStage("int-sweep", "every truncation, substitution (256) and insertion (256) at every position of 16 integer tokens (both signs, type bounds, whitespace before / after, terminators)", true) {
			bases := []string{"-5", " -12", "\n-9223372036854775808]", "-0", "0", "18446744073709551615 ", "-2147483648,", " \t4294967295}", "-1e2", "12.5", "\r\n-7 ,8",
				"- 5", "-\t\r\n 5", "2147483647", "-9223372036854775809", "  00"}
			idx := 0
		isw:
			for _, bs := range bases {
				idx++
				if !e.cfg.Mine(idx) {
					continue
				}
				ok := true
				gen.Sweep([]byte(bs), func(x []byte) bool {
					ok = run("int-sweep", x)
					return ok
				})
				if !ok {
					break isw
				}
			}
		}
	})
}
