package props

import (
	"bytes"
	"fmt"
	"strings"
	"testing"
	"unicode/utf8"

	"verifharness/core"
	"verifharness/gen"
	"verifharness/ref"

	"github.com/willabides/rjson"
	"pgregory.net/rapid"
)

const hexLower, hexUpper = "0123456789abcdef", "0123456789ABCDEF"

func appendU(b []byte, u int, hex string) []byte {
	return append(b, '\\', 'u', hex[u>>12&15], hex[u>>8&15], hex[u>>4&15], hex[u&15])
}

// unitsExpected is the reference decoding of two consecutive \u units, written
// arithmetically (independent of ref.Unescape, which is checked against it in quick).
func unitsExpected(out []byte, hi, lo int) []byte {
	isHi := func(u int) bool { return u >= 0xD800 && u <= 0xDBFF }
	isLo := func(u int) bool { return u >= 0xDC00 && u <= 0xDFFF }
	if isHi(hi) && isLo(lo) {
		return utf8.AppendRune(out, rune(0x10000+(hi-0xD800)<<10+(lo-0xDC00)))
	}
	for _, u := range [2]int{hi, lo} {
		if isHi(u) || isLo(u) {
			out = append(out, 0xEF, 0xBF, 0xBD)
		} else {
			out = utf8.AppendRune(out, rune(u))
		}
	}
	return out
}

func TestC06(t *testing.T) {
	runProp(t, "C06", func(e *env) {
		e.coldStage(6, 12, 13, 21, 22)
		r := e.r
		dirty := []byte("dirty \\ \" scratch 0123456789 \xff")
		eval := func(kind string, in []byte) error {
			info, err := c06Check(in, &dirty)
			if err == errOracle {
				r.Inconclusive("reference string rule and encoding/json disagree", &core.Case{Prop: "C06", Kind: kind, In: append([]byte(nil), in...)})
				return nil
			}
			key := core.Hash(in)
			r.Eval(key, info.nontrivial)
			if info.ok {
				r.Label("wellformed")
			} else {
				r.Label("rejected")
			}
			if info.nontrivial && r.WantSample(key) {
				r.SampleInput(key, kind, in, "wellformed", info.ok)
			}
			return err
		}
		run := func(kind string, in []byte) bool {
			r.Begin(kind, in)
			if err := core.Catch(func() error { return eval(kind, in) }); err != nil {
				r.Fail(caseOf("C06", kind, in, err), err)
				return false
			}
			return true
		}
		// 1. all string contents up to a length over the string alphabet, quoted and unterminated
		sl := gen.Shortlex{Alphabet: gen.StringAlphabet, MaxLen: e.cfg.Pick(4, 6)}
		if e.enumStage("shortlex-content", fmt.Sprintf("all %d string contents of length <= %d over a %d-byte alphabet (quotes, backslash, escape letters, hex digits of both cases, 0x00 0x1f 0x7f 0x80 0xc3 0xff), quoted and unterminated", sl.Count(), sl.MaxLen, len(sl.Alphabet)), true) {
			buf := make([]byte, 0, 16)
			sl.Each(e.cfg.Shard, e.cfg.Shards, func(idx int, b []byte) bool {
				buf = append(append(append(buf[:0], '"'), b...), '"')
				if !run("shortlex", buf) {
					return false
				}
				return run("shortlex.unterminated", buf[:len(buf)-1])
			})
		}
		// 2. all 65,536 \u units, both hex cases, alone / followed by a letter / preceded by raw bytes
		if e.enumStage("units", "all 65536 \\uXXXX code units x {lower, upper hex} x 3 contexts", true) {
			buf := make([]byte, 0, 32)
		units:
			for u := 0; u < 0x10000; u++ {
				if !e.cfg.Mine(u) {
					continue
				}
				for _, hex := range []string{hexLower, hexUpper} {
					for ctx := 0; ctx < 3; ctx++ {
						buf = append(buf[:0], '"')
						if ctx == 2 {
							buf = append(buf, "a\xc3"...)
						}
						buf = appendU(buf, u, hex)
						if ctx >= 1 {
							buf = append(buf, 'z')
						}
						buf = append(buf, '"')
						if !run("unit", buf) {
							break units
						}
					}
				}
			}
		}
		// 3. unit pairs: a fast path (ReadStringBytes + UnescapeStringContent against arithmetic
		// expectations). quick: ~700 x 700 units round the surrogate range edges and BMP edges;
		// thorough: all 2^32 ordered pairs.
		{
			var his, los []int
			if e.cfg.Thorough() {
				for u := 0; u < 0x10000; u++ {
					his = append(his, u)
				}
				los = his
			} else {
				for u := 0xD7F0; u < 0xD880; u++ {
					his = append(his, u)
				}
				for u := 0xDB80; u < 0xDC80; u++ {
					his = append(his, u)
				}
				for u := 0xDF80; u < 0xE010; u++ {
					his = append(his, u)
				}
				for u := 0; u < 128; u++ {
					his = append(his, u*509%0x10000)
				}
				his = append(his, 0, 0x7f, 0x80, 0x7ff, 0x800, 0xd7ff, 0xe000, 0xfffd, 0xfffe, 0xffff)
				los = his
			}
			if e.enumStage("unit-pairs", fmt.Sprintf("%d x %d ordered pairs of \\u units (thorough: all 2^32), lower-case hex", len(his), len(los)), true) {
				tok := make([]byte, 0, 16)
				dst := make([]byte, 0, 32)
				want := make([]byte, 0, 16)
				var n, nt int64
				for hi_i, hi := range his {
					if !e.cfg.Mine(hi_i) {
						continue
					}
					if r.Failed() || r.IsInconclusive() {
						break
					}
					perr := core.Catch(func() error {
						for _, lo := range los {
							tok = append(tok[:0], '"')
							tok = appendU(tok, hi, hexLower)
							tok = appendU(tok, lo, hexLower)
							tok = append(tok, '"')
							want = unitsExpected(want[:0], hi, lo)
							n++
							got, p, err := rjson.ReadStringBytes(tok, dst[:0])
							if err != nil || p != 14 || !bytes.Equal(got, want) {
								e2 := fmt.Errorf("ReadStringBytes(%s) = (%q, p=%d, %v); want (%q, 14, nil)", tok, got, p, err, want)
								r.Fail(&core.Case{Prop: "C06", Kind: "unit-pair", In: append([]byte(nil), tok...)}, e2)
								return nil
							}
							got, p, err = rjson.UnescapeStringContent(tok[1:13], dst[:0])
							if err != nil || p != 12 || !bytes.Equal(got, want) {
								e2 := fmt.Errorf("UnescapeStringContent(%s) = (%q, p=%d, %v); want (%q, 12, nil)", tok[1:13], got, p, err, want)
								r.Fail(&core.Case{Prop: "C06", Kind: "unit-pair", In: append([]byte(nil), tok...)}, e2)
								return nil
							}
							if (hi&0xfff == 0 && lo&0xff == 0) || !e.cfg.Thorough() && (n%64 == 0) {
								// tie the arithmetic expectation to the reference model and count distinct cases
								if !bytes.Equal(ref.Unescape(tok[1:13]), want) {
									r.Inconclusive("arithmetic unit-pair expectation and ref.Unescape disagree", &core.Case{Prop: "C06", Kind: "unit-pair", In: append([]byte(nil), tok...)})
									return nil
								}
								key := core.Hash(tok)
								r.Eval(key, true)
								nt++
								if r.WantSample(key) {
									r.SampleInput(key, "unit-pair", tok)
								}
							}
						}
						return nil
					})
					if perr != nil {
						r.Fail(&core.Case{Prop: "C06", Kind: "unit-pair", In: append([]byte(nil), tok...)}, perr)
						break
					}
					r.Idle()
				}
				r.EvalN(n - nt)
				r.LabelN("unit-pairs", n)
			}
		}
		// 3b. escape look-alikes: sequences of 1-3 units, each a real escape \\uXXXX, an escaped
		// backslash followed by the text uXXXX, or the bare text uXXXX (a decoder that looks back
		// or ahead at raw bytes instead of at what was consumed confuses them)
		if e.enumStage("escape-lookalikes", "all sequences of 1-3 units over {real escape, escaped-backslash + text, bare text} x {D83D, DE00, D800, DC00, 0041, 00e9, DBFF, DFFF} (24 unit kinds: 24 + 576 + 13824 strings)", true) {
			vals := []string{"D83D", "DE00", "d800", "dc00", "0041", "00e9", "DBFF", "dfff"}
			var units []string
			for _, v := range vals {
				units = append(units, `\u`+v, `\\u`+v, `u`+v)
			}
			buf := make([]byte, 0, 64)
			idx := 0
		look:
			for a := -1; a < len(units); a++ {
				for b := -1; b < len(units); b++ {
					if a < 0 && b >= 0 {
						continue
					}
					for c := 0; c < len(units); c++ {
						idx++
						if !e.cfg.Mine(idx) {
							continue
						}
						buf = append(buf[:0], '"')
						if a >= 0 {
							buf = append(buf, units[a]...)
						}
						if b >= 0 {
							buf = append(buf, units[b]...)
						}
						buf = append(append(buf, units[c]...), '"')
						if !run("escape-lookalike", buf) {
							break look
						}
					}
				}
			}
		}
		// 4. sweeps around generated well-formed string tokens
		e.rapidStage("sweep", "sweep", e.cfg.N(400, 30000), func(rt *rapid.T) {
			b := gen.Str(rt, nil, 6)
			if len(b) > 40 {
				b = gen.Str(rt, nil, 2)
			}
			if rapid.Bool().Draw(rt, "ws") {
				b = append([]byte(" \n"), b...)
			}
			var ferr error
			var bad []byte
			gen.Sweep(b, func(x []byte) bool {
				r.Begin("sweep", x)
				if err := core.Catch(func() error { return eval("sweep", x) }); err != nil {
					ferr, bad = err, keepSpare(x)
					return false
				}
				return true
			})
			if ferr != nil {
				failRapid(rt, r, caseOf("C06", "sweep", bad, ferr), ferr)
			}
		})
		// 5. longer strings from pieces (escapes at arbitrary positions, buffer growth)
		e.rapidStage("pieces", "rapid", e.cfg.N(40000, 3000000), func(rt *rapid.T) {
			var b []byte
			b = append(b, []string{"", "", " ", "\t\n"}[rapid.IntRange(0, 3).Draw(rt, "pre")]...)
			b = gen.Str(rt, b, rapid.IntRange(0, 40).Draw(rt, "pieces"))
			b = append(b, gen.Trailers[rapid.IntRange(0, len(gen.Trailers)-1).Draw(rt, "trail")]...)
			if rapid.IntRange(0, 4).Draw(rt, "mut?") == 0 {
				b = gen.Mutate(rt, b)
			}
			r.Begin("pieces", b)
			if err := core.Catch(func() error { return eval("pieces", b) }); err != nil {
				failRapid(rt, r, caseOf("C06", "pieces", b, err), err)
			}
		})
		// 5b. an escape early, then a long plain run, then \\u escapes, with more than a KiB of
		// document after the string (scratch reservations capped at a round size)
		if e.enumStage("late-unicode-escape", "escape + plain run of L bytes (L round 256/512/1024/2048/4096 +-8) + \\u escape(s) + closing quote + 0 or 1200 trailing bytes", true) {
			idx := 0
		late:
			for _, base := range []int{256, 512, 1024, 2048, 4096} {
				for L := base - 8; L <= base+8; L++ {
					for _, esc := range []string{`\u00e9`, `\ud83d\ude00`, `\u0041\u0042\u0043`, `\ud800`} {
						for _, pad := range []int{0, 1200} {
							idx++
							if !e.cfg.Mine(idx) {
								continue
							}
							b := append([]byte(`"\n`), bytes.Repeat([]byte("p"), L)...)
							b = append(append(b, esc...), '"')
							b = append(b, bytes.Repeat([]byte(" "), pad)...)
							if !run("late-unicode-escape", b) {
								break late
							}
						}
					}
				}
			}
		}
		// 5c. runs of directly adjacent escapes of one kind, then a surrogate pair (or a lone
		// half, or a plain escape), at every run length: decoders that batch escapes must not
		// split a pair at a batch boundary, whatever the batch size
		if e.enumStage("escape-runs", "N adjacent escapes (N in 0..140, 254..258, 510..514, 1022..1026, 4094..4098) of 6 unit kinds + one of 5 closers (pair, high half, low half, \\n, none) + tail", true) {
			units := []string{`\u00e9`, `\u0041`, `\n`, `\ud83d\ude00`, `\ud800`, `\\`}
			closers := []string{`\ud83d\ude00`, `\ud83d`, `\ude00`, `\n`, ``}
			var ns []int
			for n := 0; n <= 140; n++ {
				ns = append(ns, n)
			}
			for _, base := range []int{256, 512, 1024, 4096} {
				for n := base - 2; n <= base+2; n++ {
					ns = append(ns, n)
				}
			}
			idx := 0
		runs:
			for _, n := range ns {
				for _, u := range units {
					idx++
					if !e.cfg.Mine(idx) {
						continue
					}
					for ci, cl := range closers {
						b := append([]byte{'"'}, strings.Repeat(u, n)...)
						b = append(append(b, cl...), []string{`"`, `x"`, `"tail`}[(n+ci)%3]...)
						if !run("escape-runs", b) {
							break runs
						}
					}
				}
			}
		}
		// 6. growth boundaries: a plain run of length L, then an escape, then a tail
		if e.enumStage("growth", "plain run of L bytes (L in 0..70 and powers of two +-1 up to 4097) + each escape kind + 15 tails of length 0..12 (word-at-a-time scanners: every offset modulo 8 and distance from the end); L = 2^16, 2^20 (thorough also 2^22, 2^24) +-1 with 3 escape kinds before or after the run", true) {
			escs := []string{`\n`, `\"`, `\\`, `A`, `é`, `€`, `😀`, `\ud800`, `\udc00x`, "\xff", "é"}
			var Ls []int
			for L := 0; L <= 70; L++ {
				Ls = append(Ls, L)
			}
			for _, p2 := range []int{128, 256, 512, 1024, 4096} {
				Ls = append(Ls, p2-1, p2, p2+1)
			}
			nSmall := len(Ls)
			for _, p2 := range []int{1 << 16, 1 << 20, 1 << 22, 1 << 24}[:e.cfg.Pick(2, 4)] {
				Ls = append(Ls, p2-1, p2, p2+1)
			}
			idx := 0
		growth:
			for li, L := range Ls {
				for ei, esc := range escs {
					if li >= nSmall {
						// large runs: three escape kinds, the escape after or before the run
						if ei%4 != 0 {
							continue
						}
						idx++
						if !e.cfg.Mine(idx) {
							continue
						}
						run1 := bytes.Repeat([]byte("p"), L)
						after := append(append(append(append([]byte{'"'}, run1...), esc...), "tail"...), '"')
						before := append(append(append(append([]byte{'"'}, esc...), run1...), `\t`...), '"')
						if !run("growth.large", after) || !run("growth.large", before) {
							break growth
						}
						continue
					}
					tails := []string{"", "t", `\t`, `étail`, "zz", "zzz", "zzzz", "zzzzz", "zzzzzz", "zzzzzzz", "zzzzzzzz", "zzzzzzzzz", "zzzzzzzzzzzz", `zzz\"`, `zzzzzzz\\`}
					for _, tail := range tails {
						idx++
						if !e.cfg.Mine(idx) {
							continue
						}
						b := append([]byte{'"'}, bytes.Repeat([]byte("p"), L)...)
						b = append(append(append(b, esc...), tail...), '"')
						if !run("growth", b) {
							break growth
						}
					}
				}
			}
		}
	})
}
