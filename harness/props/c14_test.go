package props

import (
	"fmt"
	"testing"

	"verifharness/core"
	"verifharness/gen"

	"pgregory.net/rapid"
)

// c14Doc draws a document for one step: small valid, mutated, deep, at/over the limit.
func c14Doc(rt *rapid.T) []byte {
	switch rapid.IntRange(0, 22).Draw(rt, "docclass") {
	case 22:
		// far beyond the limit of the skip functions: the traversals have none of their own, so
		// a declined member this deep grows (and may make the library trim) the shared stack
		d := []int{20000, 40000, 66000, 70000, 140000}[rapid.IntRange(0, 4).Draw(rt, "verydeep")]
		return gen.NestSpec{Depth: d, Pattern: []string{"a", "o", "ao"}[rapid.IntRange(0, 2).Draw(rt, "pat")], Close: d, Bottom: "1", Sibling: rapid.Bool().Draw(rt, "sib")}.Build()
	case 20, 21:
		// mid-depth shapes (hundreds to thousands of levels): far below the limit, deeper than any
		// freshly made stack; balanced, unbalanced, or cut off - with a warmed Buffer these
		// take a different route through stack growth than without one
		d := []int{130, 300, 1023, 1024, 1025, 1100, 2048, 3000, 4097, 5000, 8000, 9000}[rapid.IntRange(0, 11).Draw(rt, "middepth")]
		cl := d
		switch rapid.IntRange(0, 3).Draw(rt, "closing") {
		case 0:
			cl = 0
		case 1:
			cl = rapid.IntRange(0, d).Draw(rt, "close")
		case 2:
			cl = d - 1
		}
		return gen.NestSpec{Depth: d, Pattern: gen.NestPatterns[rapid.IntRange(0, len(gen.NestPatterns)-1).Draw(rt, "pat")], Close: cl,
			Bottom: []string{"1", "", `"x"`, "x"}[rapid.IntRange(0, 3).Draw(rt, "bottom")], Trail: []string{"", "", "junk", "]"}[rapid.IntRange(0, 3).Draw(rt, "trail")]}.Build()
	case 0, 1:
		return gen.NestSpec{Depth: rapid.IntRange(8, 90).Draw(rt, "depth"), Pattern: gen.NestPatterns[rapid.IntRange(0, len(gen.NestPatterns)-1).Draw(rt, "pat")],
			Close: rapid.IntRange(0, 90).Draw(rt, "close"), Bottom: []string{"", "1", `"x"`, "]"}[rapid.IntRange(0, 3).Draw(rt, "bottom")]}.Build()
	case 2, 3:
		// around and beyond the limit: the handler machines have no depth guard of their own, so
		// a traversal can grow a shared Buffer's stack past what the skip functions ever would
		d := []int{9999, 10000, 10001, 10002, 10003, 10004, 10500, 12000}[rapid.IntRange(0, 7).Draw(rt, "limitdepth")]
		cl := d
		if rapid.IntRange(0, 2).Draw(rt, "unclosed") == 0 {
			cl = rapid.IntRange(0, d).Draw(rt, "close")
		}
		return gen.NestSpec{Depth: d, Pattern: gen.NestPatterns[rapid.IntRange(0, len(gen.NestPatterns)-1).Draw(rt, "pat")], Close: cl, Bottom: "1"}.Build()
	case 4, 5, 6:
		kind := byte("[{"[rapid.IntRange(0, 1).Draw(rt, "kind")])
		b := gen.Container(rt, nil, gen.AnyProfile(rt), kind, rapid.IntRange(1, 5).Draw(rt, "depth"))
		if rapid.IntRange(0, 2).Draw(rt, "mut?") == 0 {
			b = gen.Mutate(rt, b)
		}
		return b
	default:
		b := gen.DocTrail(rt, gen.AnyProfile(rt))
		for k := rapid.IntRange(0, 3).Draw(rt, "nmut") / 2; k > 0; k-- {
			b = gen.Mutate(rt, b)
		}
		return b
	}
}

func TestC14(t *testing.T) {
	runProp(t, "C14", func(e *env) {
		r := e.r
		e.rapidStage("histories", "stateful", e.cfg.N(1100, 250000), func(rt *rapid.T) {
			var run c14Runner
			var hist []core.Case
			hkey := uint64(14695981039346656037)
			do := func(step core.Case) {
				hist = append(hist, step)
				hkey = core.HashInts(core.Hash([]byte(step.Kind), step.In)^hkey, step.Ints...)
				c := &core.Case{Prop: "C14", Kind: "history", Steps: hist}
				r.BeginCase(c)
				info, err := run.step(&hist[len(hist)-1])
				r.Eval(hkey, info.nontrivial)
				r.Label("step." + step.Kind)
				if info.reentrant {
					r.Label("step.reentrant")
				}
				if info.nontrivial && r.WantSample(hkey) {
					r.Sample(map[string]interface{}{"history": describeSteps(hist), "last_handler": step.Ints, "reentrant": info.reentrant})
				}
				if err != nil {
					cc := &core.Case{Prop: "C14", Kind: "history", Steps: append([]core.Case(nil), hist...)}
					failRapid(rt, r, cc, fmt.Errorf("step %d: %w", len(hist)-1, err))
				}
			}
			// repeat count: mostly 1; small documents are sometimes repeated thousands of times
			repeat := func(rt *rapid.T, doc []byte) int64 {
				if len(doc) > 64 {
					return 1
				}
				if len(doc) <= 16 && rapid.IntRange(0, 40).Draw(rt, "manycalls?") == 0 {
					return 66000 // beyond any 16-bit per-Buffer call counter
				}
				return []int64{1, 1, 1, 1, 1, 3, 40, 2600, 12000}[rapid.IntRange(0, 8).Draw(rt, "repeat")]
			}
			plain := func(name string) func(*rapid.T) {
				return func(rt *rapid.T) {
					doc := c14Doc(rt)
					do(core.Case{Kind: name, In: doc, Ints: []int64{0, 0, 0, 0, repeat(rt, doc), int64(rapid.IntRange(0, 3).Draw(rt, "alias") % 3)}})
				}
			}
			handler := func(name string) func(*rapid.T) {
				return func(rt *rapid.T) {
					doc := c14Doc(rt)
					mode := int64(rapid.IntRange(0, 2).Draw(rt, "handlermode"))
					k := int64(rapid.IntRange(0, 4).Draw(rt, "abortAt"))
					bits := rapid.Uint64().Draw(rt, "strategy")
					re := int64(0)
					if rapid.IntRange(0, 2).Draw(rt, "reentrant?") > 0 {
						re = int64(rapid.IntRange(1, 5).Draw(rt, "reentry"))
					}
					do(core.Case{Kind: name, In: doc, Ints: []int64{mode, k, int64(bits), re, repeat(rt, doc), int64(rapid.IntRange(0, 3).Draw(rt, "alias") % 3)}})
				}
			}
			// the previous document again, same length, one byte changed, written over the old one
			// in the arena (what a caller reading fixed-size messages into one buffer does)
			overwrite := func(rt *rapid.T) {
				if len(hist) == 0 || len(hist[len(hist)-1].In) == 0 || len(hist[len(hist)-1].In) > 4096 {
					rt.Skip("no previous document")
				}
				prev := hist[len(hist)-1]
				doc := append([]byte(nil), prev.In...)
				pos := rapid.IntRange(0, len(doc)-1).Draw(rt, "pos")
				doc[pos] = gen.HostileBytes[rapid.IntRange(0, len(gen.HostileBytes)-1).Draw(rt, "byte")]
				name := c14Funcs[rapid.IntRange(0, len(c14Funcs)-1).Draw(rt, "fn")]
				ints := append([]int64(nil), prev.Ints...)
				for len(ints) < 6 {
					ints = append(ints, 0)
				}
				ints[4], ints[5] = 1, 1
				do(core.Case{Kind: name, In: doc, Ints: ints})
			}
			rt.Repeat(map[string]func(*rapid.T){
				"overwrite":          overwrite,
				"overwrite2":         overwrite,
				"Valid":              plain("Valid"),
				"SkipValue":          plain("SkipValue"),
				"SkipValueFast":      plain("SkipValueFast"),
				"HandleArrayValues":  handler("HandleArrayValues"),
				"HandleObjectValues": handler("HandleObjectValues"),
			})
		})
	})
}
