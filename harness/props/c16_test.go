package props

import (
	"testing"

	"verifharness/core"
	"verifharness/gen"
	"verifharness/ref"

	"pgregory.net/rapid"
)

func TestC16(t *testing.T) {
	runProp(t, "C16", func(e *env) {
		r := e.r
		// destination configurations relative to the bytes the call needs
		dstEval := func(kind string, in []byte) error {
			hasEscape := false
			for _, c := range in {
				if c == '\\' {
					hasEscape = true
				}
			}
			for fn := range dstFuncs {
				base, berr := dstFuncs[fn].run(append([]byte(nil), in...), nil)
				if berr != nil {
					r.EvalN(1)
					continue
				}
				need := len(base)
				for _, dl := range []int{0, 1, 3, 17} {
					for _, dc := range []int{dl, dl + 1, dl + need - 1, dl + need, dl + need + 1, dl + len(in), dl + 2*len(in) + 64} {
						if dc < dl {
							continue
						}
						grew, ok, err := c16Dst(fn, in, dl, dc)
						key := core.HashInts(core.Hash(in), int64(fn), int64(dl), int64(dc))
						nt := ok && ((dl > 0 && grew) || hasEscape)
						r.Eval(key, nt)
						if nt && r.WantSample(key) {
							r.SampleInput(key, kind, in, "func", dstFuncs[fn].name, "dst_len", dl, "dst_cap", dc, "needed", need)
						}
						if err != nil {
							return &caseErr{&core.Case{Prop: "C16", Kind: "dst", In: append([]byte(nil), in...), Ints: []int64{int64(fn), int64(dl), int64(dc)}}, err}
						}
					}
				}
			}
			for _, sc := range [][2]int{{0, 0}, {5, 5}, {5, 64}, {0, 3}, {40, 41}} {
				ok, err := c16Scratch(in, sc[0], sc[1])
				key := core.HashInts(core.Hash(in), -1, int64(sc[0]), int64(sc[1]))
				r.Eval(key, ok && hasEscape)
				if err != nil {
					return &caseErr{&core.Case{Prop: "C16", Kind: "scratch", In: append([]byte(nil), in...), Ints: []int64{int64(sc[0]), int64(sc[1])}}, err}
				}
			}
			return nil
		}
		// 1. string tokens and string contents, every destination configuration
		e.rapidStage("destinations", "rapid", e.cfg.N(40000, 1000000), func(rt *rapid.T) {
			var b []byte
			switch rapid.IntRange(0, 3).Draw(rt, "shape") {
			case 0: // bare content (for UnescapeStringContent / StdLibCompatibleStringBytes)
				b = gen.StrContent(rt, rapid.IntRange(0, 12).Draw(rt, "pieces"))
			case 1: // long plain run then escapes (growth)
				b = append(b, '"')
				n := rapid.IntRange(0, 300).Draw(rt, "run")
				if rapid.IntRange(0, 9).Draw(rt, "longrun?") == 0 {
					n = []int{1023, 1024, 1025, 2048, 4096, 5000, 20000}[rapid.IntRange(0, 6).Draw(rt, "longrun")]
				}
				for i := 0; i < n; i++ {
					b = append(b, 'p')
				}
				if rapid.IntRange(0, 2).Draw(rt, "escapes?") > 0 {
					b = append(b, gen.StrContent(rt, 4)...)
				}
				b = append(b, '"')
			default:
				b = append(b, []string{"", " ", "\n"}[rapid.IntRange(0, 2).Draw(rt, "pre")]...)
				b = gen.Str(rt, b, rapid.IntRange(0, 12).Draw(rt, "pieces"))
				b = append(b, gen.Trailers[rapid.IntRange(0, len(gen.Trailers)-1).Draw(rt, "trail")]...)
				if rapid.IntRange(0, 7).Draw(rt, "longtail?") == 0 {
					// the string is the first token of a much longer document: what the readers
					// reserve, keep or hand back may depend on how much input follows the string
					n := []int{1100, 4200, 5000, 9000, 17000}[rapid.IntRange(0, 4).Draw(rt, "taillen")]
					b = append(b, ',')
					for len(b) < n {
						b = append(b, ` "filler", [1, 2, 3], {"k": null},`...)
					}
				}
			}
			r.Begin("dst", b)
			if err := core.Catch(func() error { return dstEval("dst", b) }); err != nil {
				failRapid(rt, r, caseOf("C16", "dst", b, err), err)
			}
		})
		// 1b. every single-byte edit of string tokens (malformed escapes, raw control bytes, missing
		// quotes) under every scratch configuration: success, value, offset and error must not
		// depend on the scratch either
		e.rapidStage("scratch-sweep", "sweep", e.cfg.N(150, 8000), func(rt *rapid.T) {
			b := gen.Str(rt, nil, 5)
			if len(b) > 36 {
				b = gen.Str(rt, nil, 2)
			}
			var ferr error
			var bad []byte
			var badCfg [2]int
			gen.Sweep(b, func(x []byte) bool {
				r.Begin("scratch", x)
				for _, sc := range [][2]int{{0, 0}, {5, 64}, {0, 3}, {40, 41}, {0, 256}} {
					ok, err := c16Scratch(x, sc[0], sc[1])
					r.Eval(core.HashInts(core.Hash(x), -2, int64(sc[0]), int64(sc[1])), !ok)
					if err != nil {
						ferr, bad, badCfg = err, keepSpare(x), sc
						return false
					}
				}
				return true
			})
			if ferr != nil {
				failRapid(rt, r, &core.Case{Prop: "C16", Kind: "scratch", In: append([]byte(nil), bad...), Ints: []int64{int64(badCfg[0]), int64(badCfg[1])}}, ferr)
			}
		})
		// 2. every entry point leaves its input alone; returned trees/strings own their memory
		inputEval := func(kind string, in []byte) error {
			tree, err := c16Input(in)
			key := core.Hash(in)
			nt := tree && ref.TreeStatsOfDoc(in)
			r.Eval(key, nt)
			if nt && r.WantSample(key) {
				r.SampleInput(key, kind, in)
			}
			return err
		}
		e.rapidStage("inputs", "rapid", e.cfg.N(60000, 1200000), func(rt *rapid.T) {
			p := gen.AnyProfile(rt)
			b := gen.DocTrail(rt, p)
			if rapid.IntRange(0, 3).Draw(rt, "mut?") == 0 {
				b = gen.Mutate(rt, b)
			}
			r.Begin("input", b)
			if err := core.Catch(func() error { return inputEval("input", b) }); err != nil {
				failRapid(rt, r, caseOf("C16", "input", b, err), err)
			}
		})
		e.feed(feedOpts{counts: 1, shortlexQ: 3, shortlexT: 4, sweepQ: 60, sweepT: 1200, sweepMaxLen: 48}, inputEval)
	})
}
