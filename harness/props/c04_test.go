package props

import (
	"fmt"
	"math"
	"math/big"
	"math/bits"
	"strconv"
	"strings"
	"testing"

	"verifharness/core"

	"pgregory.net/rapid"
)

const bigPrec = 2400

// c04LongTail follows a literal that is the first token of a longer input.
const c04LongTail = `, "next": [1.5, 2e3], "padding": "xxxxxxxxxxxxxxxxxxxxxxxxxxxxxxxxxxxxxxxxxxxxxxxxxxxxxxxxxxxxxxxxxxxxxxxxxxxxxxxxxxxxxxxxx"}`

// midpointDecimal: exact decimal text (d.ddd…e±x) of the midpoint between positive finite x
// and the next larger float (for MaxFloat64: x + ulp/2, the overflow threshold).
func midpointDecimal(x float64) string {
	bx := new(big.Float).SetPrec(bigPrec).SetFloat64(x)
	y := math.Nextafter(x, math.Inf(1))
	var m *big.Float
	if math.IsInf(y, 1) {
		ulp := new(big.Float).SetPrec(bigPrec).SetFloat64(x - math.Nextafter(x, 0))
		ulp.Quo(ulp, big.NewFloat(2))
		m = bx.Add(bx, ulp)
	} else {
		by := new(big.Float).SetPrec(bigPrec).SetFloat64(y)
		m = bx.Add(bx, by)
		m.Quo(m, big.NewFloat(2))
	}
	return trimMantZeros(m.Text('e', 1100))
}

func trimMantZeros(s string) string {
	i := strings.IndexByte(s, 'e')
	m, e := s[:i], s[i:]
	m = strings.TrimRight(m, "0")
	if strings.HasSuffix(m, ".") {
		m += "0"
	}
	return m + e
}

// halfwayVariants: the exact halfway literal, just above (far-right digit, trailing …0001),
// and just below (last digit decremented followed by 9s).
func halfwayVariants(s string) []string {
	i := strings.IndexByte(s, 'e')
	m, e := s[:i], s[i:]
	out := []string{m + e, m + "0000000000000000000000001" + e, m + "1" + e, m + "000" + e}
	last := m[len(m)-1]
	if last > '0' && last <= '9' {
		out = append(out, m[:len(m)-1]+string(last-1)+"99999999999999999999999999"+e, m[:len(m)-1]+string(last-1)+e)
	}
	return out
}

// toFixed rewrites d.ddde±x as plain fixed notation when that stays short enough.
func toFixed(s string) (string, bool) {
	i := strings.IndexByte(s, 'e')
	m, es := s[:i], s[i+1:]
	ex, err := strconv.Atoi(es)
	if err != nil || ex > 60 || ex < -60 {
		return "", false
	}
	neg := strings.HasPrefix(m, "-")
	m = strings.TrimPrefix(m, "-")
	digits := strings.Replace(m, ".", "", 1)
	point := 1 + ex // position of the decimal point within digits
	var out string
	switch {
	case point <= 0:
		out = "0." + strings.Repeat("0", -point) + digits
	case point >= len(digits):
		out = digits + strings.Repeat("0", point-len(digits))
	default:
		out = digits[:point] + "." + digits[point:]
	}
	if neg {
		out = "-" + out
	}
	return out, true
}

// longDigitCounts: total significant-digit counts for a literal built on a d-digit midpoint:
// the next few, and a window around 800 (every count 794..806) plus some far larger ones.
func longDigitCounts(t *rapid.T, d int) []int {
	out := []int{d + 1, d + 2, d + rapid.IntRange(3, 40).Draw(t, "pad")}
	for n := 794; n <= 806; n++ {
		out = append(out, n)
	}
	return append(out, 767, 768, 769, 1000, 1599, 1600, 1601, rapid.IntRange(20, 2500).Draw(t, "digits"))
}

func splitmix(x uint64) uint64 {
	x += 0x9e3779b97f4a7c15
	x = (x ^ (x >> 30)) * 0xbf58476d1ce4e5b9
	x = (x ^ (x >> 27)) * 0x94d049bb133111eb
	return x ^ (x >> 31)
}

// toFixedAny is toFixed without the exponent-range restriction (used for 2^-1075).
func toFixedAny(s string) (string, bool) {
	i := strings.IndexByte(s, 'e')
	m, es := s[:i], s[i+1:]
	ex, err := strconv.Atoi(es)
	if err != nil || ex > 1200 || ex < -1200 {
		return "", false
	}
	digits := strings.Replace(strings.TrimPrefix(m, "-"), ".", "", 1)
	point := 1 + ex
	switch {
	case point <= 0:
		return "0." + strings.Repeat("0", -point) + digits, true
	case point >= len(digits):
		return digits + strings.Repeat("0", point-len(digits)), true
	}
	return digits[:point] + "." + digits[point:], true
}

func pow10Big(q int) *big.Float {
	p := new(big.Float).SetPrec(bigPrec)
	p.SetInt(new(big.Int).Exp(big.NewInt(10), big.NewInt(int64(q)), nil))
	return p
}

func TestC04(t *testing.T) {
	runProp(t, "C04", func(e *env) {
		e.coldStage(5, 20)
		r := e.r
		eval := func(kind string, lit string) error {
			in := []byte(lit)
			nt, class, err := c04Check(in)
			if err == errOracle {
				r.Inconclusive("strconv.ParseFloat rejected a JSON number literal", &core.Case{Prop: "C04", Kind: kind, In: in})
				return nil
			}
			key := core.Hash(in)
			r.Eval(key, nt)
			r.Label("class." + class)
			r.Label("gen." + kind)
			if nt && r.WantSample(key) {
				r.SampleInput(key, kind, in, "class", class)
			}
			return err
		}
		// evalAll: the literal alone, negated, and followed by a terminator
		evalAll := func(kind, lit string) error {
			for _, s := range []string{lit, "-" + lit, lit + ",", " " + lit + "]", "\n\t                 " + lit + "}", lit + c04LongTail} {
				if strings.HasPrefix(s, "--") {
					continue
				}
				r.Begin(kind, []byte(s))
				if err := core.Catch(func() error { return eval(kind, s) }); err != nil {
					return &caseErr{&core.Case{Prop: "C04", Kind: kind, In: []byte(s)}, err}
				}
			}
			return nil
		}
		rapidLits := func(name string, n int, gen func(rt *rapid.T) []string) {
			e.rapidStage(name, "rapid", n, func(rt *rapid.T) {
				for _, lit := range gen(rt) {
					if err := evalAll(name, lit); err != nil {
						failRapid(rt, r, caseOf("C04", name, []byte(lit), err), err)
					}
				}
			})
		}
		drawFloat := func(rt *rapid.T) float64 {
			// rapid biases integers toward small values; scramble the draw so that exponent and
			// mantissa bits are uniform (still a pure function of the draw, so shrinking works)
			bits := splitmix(rapid.Uint64().Draw(rt, "bits")) & 0x7fffffffffffffff
			switch rapid.IntRange(0, 5).Draw(rt, "fkind") {
			case 1:
				bits &= 0x000fffffffffffff // subnormal
			case 2:
				bits = bits&0xfff0000000000000 | 0x000fffffffffffff // top of a binade
			case 3:
				bits &= 0xfff0000000000000 // power of two
			case 4:
				bits = 0x7fe0000000000000 | bits&0x000fffffffffffff // top binade (near overflow)
			}
			x := math.Float64frombits(bits)
			if math.IsNaN(x) || math.IsInf(x, 0) {
				x = math.MaxFloat64
			}
			if x == 0 {
				x = math.SmallestNonzeroFloat64
			}
			return x
		}

		// 0. the special thresholds, complete (first: cheap and decisive)
		if e.enumStage("thresholds", "halfway to overflow, halfway between 0 and the least subnormal, normal/subnormal boundary, 2^53 neighbourhood: exact, just above, just below", true) {
			var lits []string
			for _, x := range []float64{math.MaxFloat64, math.Nextafter(math.MaxFloat64, 0), math.SmallestNonzeroFloat64, 2 * math.SmallestNonzeroFloat64,
				2.2250738585072014e-308, 2.225073858507201e-308, 1, math.Nextafter(1, 0), 9007199254740992, 9007199254740991, 1e22, 1e23, 8.41e21, 5e-324} {
				lits = append(lits, halfwayVariants(midpointDecimal(x))...)
			}
			// halfway between 0 and the least subnormal: 2^-1075
			half := new(big.Float).SetPrec(bigPrec).SetFloat64(math.SmallestNonzeroFloat64)
			half.Quo(half, big.NewFloat(2))
			lits = append(lits, halfwayVariants(trimMantZeros(half.Text('e', 1100)))...)
			if f, ok := toFixedAny(trimMantZeros(half.Text('e', 1100))); ok {
				lits = append(lits, f, f+"000") // 2^-1075 in fixed notation: 0.000...(1074 digits)
			}
			lits = append(lits, "1.7976931348623157e308", "1.7976931348623158e308", "1.797693134862315807e308", "1.797693134862315808e308", "1.7976931348623159e308", "1.8e308",
				"4.9406564584124654e-324", "2.4703282292062327e-324", "2.4703282292062328e-324", "2.4703282292062329e-324", "2.47e-324", "2.48e-324", "1e-323", "1e-324", "1e-325",
				"0", "-0", "0.0", "-0.0", "0e0", "-0e-0", "0e999", "-0e999", "0.0e+5", "-0.0e5", "0e-999999999999", "0.000e+999999999999")
			for i, lit := range lits {
				if !e.cfg.Mine(i) {
					continue
				}
				if err := evalAll("threshold", strings.TrimPrefix(lit, "-")); err != nil {
					r.Fail(caseOf("C04", "threshold", []byte(lit), err), err)
					break
				}
			}
		}
		// 1. round trips: shortest, 17-25 digits, 30-60 digits, e / E / fixed notation
		rapidLits("roundtrip", e.cfg.N(12000, 3000000), func(rt *rapid.T) []string {
			x := drawFloat(rt)
			out := []string{strconv.FormatFloat(x, 'e', -1, 64), strconv.FormatFloat(x, 'E', -1, 64),
				strconv.FormatFloat(x, 'e', rapid.IntRange(16, 25).Draw(rt, "d1"), 64), strconv.FormatFloat(x, 'e', rapid.IntRange(29, 60).Draw(rt, "d2"), 64)}
			if f, ok := toFixed(out[0]); ok {
				out = append(out, f)
			}
			if f, ok := toFixed(out[2]); ok {
				out = append(out, f)
			}
			return out
		})
		// 2. exact halfway points and their immediate neighbours
		rapidLits("halfway", e.cfg.N(2000, 300000), func(rt *rapid.T) []string {
			x := drawFloat(rt)
			vs := halfwayVariants(midpointDecimal(x))
			if f, ok := toFixed(vs[0]); ok {
				vs = append(vs, f, f+"000001")
			}
			return vs
		})
		// 2b. halfway points whose deciding excess (or deficit) sits in the last of N significant
		// digits, N around every mantissa-length limit of the multi-precision fallback (its
		// digit buffer holds 800) and of the 19-digit fast paths
		rapidLits("long-halfway", e.cfg.N(280, 60000), func(rt *rapid.T) []string {
			x := drawFloat(rt)
			if rapid.IntRange(0, 3).Draw(rt, "int?") == 0 {
				x = float64(uint64(1)<<53 + 2*uint64(rapid.IntRange(0, 1<<20).Draw(rt, "odd"))) // tie goes down to an even integer
			}
			s := midpointDecimal(x)
			i := strings.IndexByte(s, 'e')
			m, ex := s[:i], s[i:]
			d := len(m) - 1 // significant digits of the exact midpoint (m is d.ddd)
			var out []string
			for _, n := range longDigitCounts(rt, d) {
				if n <= d {
					continue
				}
				up := string(rune('1' + rapid.IntRange(0, 8).Draw(rt, "excess")))
				out = append(out, m+strings.Repeat("0", n-d-1)+up+ex)
				if last := m[len(m)-1]; last > '0' {
					out = append(out, m[:len(m)-1]+string(last-1)+strings.Repeat("9", n-d)+ex)
				}
			}
			if f, ok := toFixed(out[0]); ok {
				out = append(out, f)
			}
			return out
		})
		// 2c. beyond strconv (ref/number.go): integer parts of more than 800 significant digits
		// whose leading digits defeat the fast paths, and exponents of five and six digits
		// compensated by as many leading or trailing zeros; exact rational rounding decides
		if e.enumStage("beyond-strconv", "integer parts of N digits (N in 795..805, 900, 1000, 1599..1601, 4000, 12000) built on 6 heads (ties, 2^53+1, max float, least subnormal, plain) x 3 fills (zeros, fives, zeros then a final 1) x 6 exponents x {plain, .5, .0, .0001}; zero runs Z in {9999..10001, 99998..100001, 123455; thorough also 10^6} before or after 3 digit strings with exponent Z+k for 8 offsets k", true) {
			var lits []string
			heads := []string{"9007199254740993", "1", "17976931348623158", "4940656458412465", "22250738585072011", "123456789012345678901234567890"}
			for _, N := range []int{795, 799, 800, 801, 802, 805, 900, 1000, 1599, 1600, 1601, 4000, 12000} {
				for _, h := range heads {
					for _, fill := range []string{"0", "5", "0..1"} {
						body := h + strings.Repeat(fill[:1], N-len(h))
						if fill == "0..1" {
							body = body[:len(body)-1] + "1" // zeros, then a last integer digit that decides a tie
						}
						for _, ex := range []string{"", fmt.Sprintf("e-%d", N-16), fmt.Sprintf("e-%d", N), fmt.Sprintf("e%d", 309-N), fmt.Sprintf("e-%d", N+323), fmt.Sprintf("E+%d", 308-N)} {
							lits = append(lits, body+ex, body+".5"+ex, body+".0"+ex, body+".0001"+ex)
						}
					}
				}
			}
			zs := []int{9999, 10000, 10001, 99998, 99999, 100000, 100001, 123455}
			if e.cfg.Thorough() {
				zs = append(zs, 1000000)
			}
			for _, Z := range zs {
				zeros := strings.Repeat("0", Z)
				for _, d := range []string{"1", "17976931348623158", "49406564584124654"} {
					for _, k := range []int{0, 1, 308, 309, 310, -322, -323, -324} {
						lits = append(lits, fmt.Sprintf("0.%s%se%d", zeros, d, Z+k), fmt.Sprintf("%s%se-%d", d, zeros, Z+len(d)-k))
					}
				}
			}
			// digit counts that match a six-digit exponent cut to its first five digits
			for _, Z := range []int{10000, 12345, 99999} {
				zeros := strings.Repeat("0", Z)
				for _, d := range []int{0, 6} {
					for _, h := range []string{"1", "3", "12345", "1234567890123456789", "98765432109876543210"} {
						lits = append(lits, fmt.Sprintf("%s%se-%d%d", h, zeros, Z, d), fmt.Sprintf("0.%s%se%d%d", zeros, h, Z+1, d), fmt.Sprintf("%s%s.5E-%d%d", h, zeros, Z, d))
					}
				}
			}
			for i, lit := range lits {
				if !e.cfg.Mine(i) {
					continue
				}
				forms := []string{lit, "-" + lit, lit + ","}
				for _, s := range forms {
					r.Begin("beyond-strconv", []byte(s))
					if err := core.Catch(func() error { return eval("beyond-strconv", s) }); err != nil {
						r.Fail(&core.Case{Prop: "C04", Kind: "beyond-strconv", In: []byte(s)}, err)
						break
					}
				}
				if r.Failed() {
					break
				}
			}
		}
		// 2d. the shared number-shape grid: every combination of integer / fraction / exponent
		// digit counts (values, not only validity)
		if e.enumStage("numshapes", "number tokens over the shared grid of integer x fraction x exponent digit counts, 4 spelling variants each", true) {
			idx := 0
		shapes:
			for _, li := range numShapeLens {
				for fi := -1; fi < len(numShapeLens); fi++ {
					lf := 0
					if fi >= 0 {
						lf = numShapeLens[fi]
					}
					for _, le := range numShapeExpLens {
						idx++
						if !e.cfg.Mine(idx) {
							continue
						}
						for v := 0; v < 4; v++ {
							lit := string(numShape(nil, li, lf, le, idx+v*6))
							r.Begin("numshapes", []byte(lit))
							if err := core.Catch(func() error { return eval("numshapes", lit) }); err != nil {
								r.Fail(&core.Case{Prop: "C04", Kind: "numshapes", In: []byte(lit)}, err)
								break shapes
							}
						}
					}
				}
			}
		}
		// 3. every row of the powers-of-ten table (q = -348..347) and the fallback ranges beyond
		if e.enumStage("table-rows", "for every decimal exponent q in [-400, 400]: 19-digit and shorter mantissas w with w*10^q nearest to a halfway point, and w-1, w+1", true) {
			per := e.cfg.Pick(9, 60)
		rows:
			for q := -400; q <= 400; q++ {
				if !e.cfg.Mine(q + 400) {
					continue
				}
				for k := 0; k < per; k++ {
					nd := 19
					if k%3 == 2 {
						nd = 1 + (q*7+k*5+400*7)%18
					}
					// deterministic pseudo-random mantissa seed from (q, k)
					seed := uint64(q+1000)*2654435761 + uint64(k)*40503
					w0 := math.Pow(10, float64(nd-1)) * (1 + 9*float64(seed%1000003)/1000003)
					x, err := strconv.ParseFloat(fmt.Sprintf("%.0fe%d", w0, q), 64)
					if err != nil || x == 0 || math.IsInf(x, 0) {
						// outside the float range: still a (trivial but legal) literal
						if err := evalAll("table-row", fmt.Sprintf("%.0fe%d", w0, q)); err != nil {
							r.Fail(caseOf("C04", "table-row", nil, err), err)
							break rows
						}
						continue
					}
					mid, _, _ := big.ParseFloat(midpointDecimal(x), 10, bigPrec, big.ToNearestEven)
					wq := new(big.Float).SetPrec(bigPrec)
					if q >= 0 {
						wq.Quo(mid, pow10Big(q))
					} else {
						wq.Mul(mid, pow10Big(-q))
					}
					wi, _ := wq.Int(nil)
					for d := int64(-1); d <= 2; d++ {
						w := new(big.Int).Add(wi, big.NewInt(d))
						if w.Sign() <= 0 {
							continue
						}
						if err := evalAll("table-row", fmt.Sprintf("%se%d", w.String(), q)); err != nil {
							r.Fail(caseOf("C04", "table-row", nil, err), err)
							break rows
						}
					}
				}
			}
		}
		// 3b. the boundary of the exact fast path: 14-17 digit mantissas round 2^52, 2^53, 1e15,
		// 1e16 and random ones, with exponents -25..40 (zeros moved into the integer part)
		rapidLits("fastpath-boundary", e.cfg.N(8000, 800000), func(rt *rapid.T) []string {
			var m uint64
			switch rapid.IntRange(0, 5).Draw(rt, "mkind") {
			case 0:
				m = 1<<52 + uint64(rapid.IntRange(-40, 40).Draw(rt, "d"))
			case 1:
				m = 1<<53 + uint64(rapid.IntRange(-40, 40).Draw(rt, "d"))
			case 2:
				m = 1000000000000000 + uint64(rapid.IntRange(-40, 40).Draw(rt, "d"))
			case 3:
				m = 10000000000000000 + uint64(rapid.IntRange(-40, 40).Draw(rt, "d"))
			default:
				m = splitmix(rapid.Uint64().Draw(rt, "m")) % 100000000000000000
				for k := rapid.IntRange(0, 4).Draw(rt, "drop"); k > 0; k-- {
					m /= 10
				}
			}
			ex := rapid.IntRange(-25, 40).Draw(rt, "exp")
			ms := strconv.FormatUint(m, 10)
			out := []string{fmt.Sprintf("%se%d", ms, ex)}
			if len(ms) > 3 {
				out = append(out, fmt.Sprintf("%s.%se%d", ms[:len(ms)-3], ms[len(ms)-3:], ex+3), fmt.Sprintf("0.%se%d", ms, ex+len(ms)))
			}
			if ex >= 0 && ex < 30 {
				out = append(out, ms+strings.Repeat("0", ex))
			}
			return out
		})
		// 3c. equivalent spellings: the same value written with the decimal point shifted k places
		// left (leading zeros after "0.") or right (trailing zeros) and a compensating exponent,
		// for values over the whole range and especially near the overflow threshold
		rapidLits("shifted-spellings", e.cfg.N(5000, 500000), func(rt *rapid.T) []string {
			x := drawFloat(rt)
			if rapid.IntRange(0, 2).Draw(rt, "neartop?") == 0 {
				x = math.Float64frombits(0x7fe0000000000000 - uint64(rapid.IntRange(0, 1<<20).Draw(rt, "belowtop"))<<rapid.IntRange(0, 32).Draw(rt, "sh"))
				if rapid.Bool().Draw(rt, "max") {
					x = math.MaxFloat64
				}
			}
			nd := rapid.IntRange(17, 40).Draw(rt, "digits")
			lit := strconv.FormatFloat(x, 'e', nd, 64) // d.ddd...e+XX
			i := strings.IndexByte(lit, 'e')
			digits := strings.Replace(lit[:i], ".", "", 1)
			ex, _ := strconv.Atoi(lit[i+1:])
			k := rapid.IntRange(0, 45).Draw(rt, "shift")
			out := []string{
				fmt.Sprintf("0.%s%se%d", strings.Repeat("0", k), digits, ex+k+1),
				fmt.Sprintf("%s%se%d", digits, strings.Repeat("0", k), ex-len(digits)+1-k),
				fmt.Sprintf("%s.%se%d", digits[:1+k%len(digits)], digits[1+k%len(digits):]+"0", ex-k%len(digits)),
			}
			return out
		})
		// 4. long mantissas: 20-40, 100, 400, 760-830 digits; point at every position; leading zeros
		rapidLits("long-mantissa", e.cfg.N(6000, 600000), func(rt *rapid.T) []string {
			var n int
			switch rapid.IntRange(0, 4).Draw(rt, "lenclass") {
			case 0:
				n = rapid.IntRange(16, 22).Draw(rt, "n")
			case 1:
				n = rapid.IntRange(20, 40).Draw(rt, "n")
			case 2:
				n = []int{100, 400}[rapid.IntRange(0, 1).Draw(rt, "n")]
			default:
				n = rapid.IntRange(760, 830).Draw(rt, "n")
			}
			var sb strings.Builder
			sb.WriteByte(byte('1' + rapid.IntRange(0, 8).Draw(rt, "d0")))
			style := rapid.IntRange(0, 3).Draw(rt, "style")
			for i := 1; i < n; i++ {
				switch style {
				case 0:
					sb.WriteByte(byte('0' + rapid.IntRange(0, 9).Draw(rt, "d")))
				case 1:
					sb.WriteByte('9')
				case 2:
					sb.WriteByte('0')
				default:
					sb.WriteByte("05"[rapid.IntRange(0, 1).Draw(rt, "d")])
				}
			}
			if style == 2 {
				sb.WriteByte(byte('0' + rapid.IntRange(0, 9).Draw(rt, "dlast")))
			}
			digits := sb.String()
			point := rapid.IntRange(0, len(digits)).Draw(rt, "point")
			exp := rapid.IntRange(-340-len(digits), 320).Draw(rt, "exp")
			var m string
			switch {
			case point == 0:
				m = "0." + strings.Repeat("0", rapid.IntRange(0, 400).Draw(rt, "leadzeros")) + digits
			case point == len(digits):
				m = digits
			default:
				m = digits[:point] + "." + digits[point:]
			}
			out := []string{m, fmt.Sprintf("%se%d", m, exp), fmt.Sprintf("%sE+%d", m, rapid.IntRange(0, 20).Draw(rt, "e2")), fmt.Sprintf("%se-%d", m, rapid.IntRange(0, 400).Draw(rt, "e3"))}
			return out
		})
		// 5. exponent extremes
		if e.enumStage("exponents", "mantissas {1, 9, 1.5, 123456789012345678, 0.00001, 2.2250738585072014, 4.9, 1.7976931348623157} x exponents {0, +-1, +-22, +-23, +-307..+-309, +-323..+-325, +-342..+-349, +-400, +-9999..+-10001, 19-digit} x 3 spellings", true) {
			mants := []string{"0." + strings.Repeat("0", 18), "0." + strings.Repeat("0", 19), "0." + strings.Repeat("0", 20), "0." + strings.Repeat("0", 40), "0." + strings.Repeat("0", 400), "0.0", "0",
				"1", "9", "1.5", "123456789012345678", "0.00001", "2.2250738585072014", "4.9", "1.7976931348623157", "17976931348623157", "0.0000000000000000000000000000001", "1" + strings.Repeat("0", 300)}
			exps := []int64{0, 1, 15, 16, 22, 23, 37, 38, 291, 292, 307, 308, 309, 310, 323, 324, 325, 342, 343, 347, 348, 349, 400, 616, 9999, 10000, 10001, 99999, 1 << 31, 1 << 32, 9223372036854775807}
			idx := 0
		exps:
			for _, m := range mants {
				for _, ex := range exps {
					for _, sign := range []string{"", "+", "-"} {
						for _, ec := range []string{"e", "E"} {
							idx++
							if !e.cfg.Mine(idx) {
								continue
							}
							lits := []string{fmt.Sprintf("%s%s%s%d", m, ec, sign, ex), fmt.Sprintf("%s%s%s00%d", m, ec, sign, ex)}
							if ex == 9223372036854775807 {
								lits = append(lits, fmt.Sprintf("%s%s%s%d0000", m, ec, sign, ex))
							}
							for _, lit := range lits {
								if err := evalAll("exponent", lit); err != nil {
									r.Fail(caseOf("C04", "exponent", []byte(lit), err), err)
									break exps
								}
							}
						}
					}
				}
			}
		}
		// 3a. the rare branches of a 128-bit mantissa x power-of-ten product, at every decimal
		// exponent: mantissas are drawn until the high word of (normalised mantissa x the top 64
		// bits of 10^q) ends in nine one bits (the product needs the lower half of the power to be
		// decided: one candidate in 512) or nine zero bits (candidate for a halfway case)
		if e.enumStage("wide-product", "for every decimal exponent q in [-348, 347]: 19-digit and 16/17-digit mantissas w (rejection-sampled, 1 in 512) whose 64x64-bit product with the leading 64 bits of 10^q has a high word ending in 0x1FF (needs the wider approximation) or 0x000 (halfway candidates)", true) {
			perA, perB := e.cfg.Pick(36, 600), e.cfg.Pick(12, 200)
		wide:
			for q := -348; q <= 347; q++ {
				if !e.cfg.Mine(q + 348) {
					continue
				}
				// leading 64 bits of 10^q
				var powHi uint64
				{
					t := new(big.Int)
					if q >= 0 {
						t.Exp(big.NewInt(10), big.NewInt(int64(q)), nil)
						if bl := t.BitLen(); bl > 64 {
							t.Rsh(t, uint(bl-64))
						} else {
							t.Lsh(t, uint(64-bl))
						}
					} else {
						d := new(big.Int).Exp(big.NewInt(10), big.NewInt(int64(-q)), nil)
						t.Lsh(big.NewInt(1), uint(d.BitLen()+63))
						t.Quo(t, d)
						if bl := t.BitLen(); bl > 64 {
							t.Rsh(t, uint(bl-64))
						}
					}
					powHi = t.Uint64()
				}
				state := uint64(q+1000) * 0x9E3779B97F4A7C15
				for _, width := range []uint64{19, 17, 16} {
					lo10, span := uint64(1), uint64(9)
					for i := uint64(1); i < width; i++ {
						lo10 *= 10
					}
					span *= lo10
					a, b := 0, 0
					wantA, wantB := perA, perB
					if width != 19 {
						wantA, wantB = perA/3, perB/3
					}
					for tries := 0; (a < wantA || b < wantB) && tries < 4000000; tries++ {
						state = splitmix(state)
						w := lo10 + state%span
						man := w << uint(bits.LeadingZeros64(w))
						hi, _ := bits.Mul64(man, powHi)
						var take bool
						switch hi & 0x1FF {
						case 0x1FF:
							take = a < wantA
							if take {
								a++
							}
						case 0:
							take = b < wantB
							if take {
								b++
							}
						}
						if !take {
							continue
						}
						if err := evalAll("wide-product", fmt.Sprintf("%de%d", w, q)); err != nil {
							r.Fail(caseOf("C04", "wide-product", nil, err), err)
							break wide
						}
					}
				}
			}
		}
	})
}
