// Package props holds the twenty property checks. Each cNN.go has a plain check function
// of a concrete core.Case (no randomness, no library) and the generators that feed it.
package props

import (
	"flag"
	"fmt"
	"os"
	"strconv"
	"testing"

	"verifharness/core"

	"pgregory.net/rapid"
)

// CheckFn is a plain check of one concrete case.
type CheckFn func(c *core.Case) error

// Checks is the registry used by replay and by the regress stage.
var Checks = map[string]CheckFn{}

// env is what a property test body gets.
type env struct {
	t     *testing.T
	r     *core.Rec
	cfg   core.Config
	stage int
}

// runProp is the common scaffold of TestCNN: regress stage, body, result file.
func runProp(t *testing.T, prop string, body func(e *env)) {
	cfg := core.LoadConfig(prop)
	r := core.NewRec(cfg)
	e := &env{t: t, r: r, cfg: cfg}
	defer func() {
		if x := recover(); x != nil {
			// a harness bug or an unrecovered panic from rjson outside a Catch
			r.Inconclusive(fmt.Sprintf("harness panic: %v", x), nil)
			r.Finish()
			panic(x)
		}
	}()
	e.regress()
	if !r.Failed() {
		body(e)
	}
	r.Finish()
	if r.Failed() {
		t.Fatalf("violation recorded (see result file)")
	}
}

// regress replays the committed concrete cases first, in every tier.
func (e *env) regress() {
	cs, names := core.RegressCases(e.cfg.Prop)
	if len(cs) == 0 {
		return
	}
	fn := Checks[e.cfg.Prop]
	e.r.Stage("regress", "regress", fmt.Sprintf("%d committed cases", len(cs)), true)
	for i, c := range cs {
		if !e.cfg.Mine(i) && e.cfg.Shards > 1 {
			continue
		}
		e.r.BeginCase(c)
		err := core.Catch(func() error { return fn(c) })
		e.r.Eval(core.Hash([]byte(names[i])), true)
		e.r.Label("regress")
		if err != nil {
			e.r.Fail(c, fmt.Errorf("regress case %s: %w", names[i], err))
			return
		}
	}
}

// rapidStage runs a rapid property with a per-stage case count and a seed derived from
// VERIF_SEED, the shard and the stage index. Returns false when the stage found a
// violation (already recorded).
func (e *env) rapidStage(name, kind string, checks int, prop func(rt *rapid.T)) bool {
	if e.r.Failed() || e.r.IsInconclusive() {
		return false
	}
	e.stage++
	seed := e.cfg.ShardSeed()*31 + uint64(e.stage)
	if seed == 0 {
		seed = 1
	}
	_ = flag.Set("rapid.checks", strconv.Itoa(checks))
	_ = flag.Set("rapid.seed", strconv.FormatUint(seed, 10))
	_ = flag.Set("rapid.nofailfile", "true")
	if os.Getenv("VERIF_SHRINKTIME") != "" {
		_ = flag.Set("rapid.shrinktime", os.Getenv("VERIF_SHRINKTIME"))
	} else {
		_ = flag.Set("rapid.shrinktime", "6s")
	}
	e.r.Stage(name, kind, fmt.Sprintf("%d rapid cases, seed %d", checks, seed), false)
	e.t.Run(name, func(st *testing.T) { rapid.Check(st, prop) })
	return !e.r.Failed()
}

// enumStage opens an enumeration stage.
func (e *env) enumStage(name, space string, complete bool) bool {
	if e.r.Failed() || e.r.IsInconclusive() {
		return false
	}
	e.r.Stage(name, "enumerate", space, complete)
	return true
}

// fail records a violation from inside a rapid property and stops the rapid case.
func failRapid(rt *rapid.T, r *core.Rec, c *core.Case, err error) {
	r.Fail(c, err)
	rt.Fatalf("%v", err)
}

// describeSteps renders a history for the evidence samples (step kind, parameters and a
// short preview of each document).
func describeSteps(hist []core.Case) []string {
	var out []string
	for i := range hist {
		if i >= 40 {
			out = append(out, fmt.Sprintf("... %d more steps", len(hist)-i))
			break
		}
		d := hist[i].Kind
		if len(hist[i].Ints) > 0 {
			d += fmt.Sprint(hist[i].Ints)
		}
		if len(hist[i].In) > 0 {
			in := hist[i].In
			if len(in) > 48 {
				d += " " + strconv.Quote(string(in[:24])) + fmt.Sprintf("...(%d bytes)", len(in))
			} else {
				d += " " + strconv.Quote(string(in))
			}
		}
		out = append(out, d)
	}
	return out
}
