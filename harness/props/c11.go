package props

import (
	"fmt"

	"verifharness/core"
	"verifharness/ref"

	"github.com/willabides/rjson"
)

func init() { Checks["C11"] = CheckC11 }

// c11Nontrivial: the value (in[:end]) is a container that holds a string with a structural
// character, or nests both container kinds.
func c11Nontrivial(v []byte) bool {
	arr, obj, tricky := false, false, false
	depth := 0
	for i := 0; i < len(v); i++ {
		switch v[i] {
		case '[':
			arr = true
			depth++
		case '{':
			obj = true
			depth++
		case '"':
			e := ref.String(v, i)
			if e < 0 {
				return false
			}
			if depth > 0 {
				for _, c := range v[i+1 : e-1] {
					switch c {
					case '[', ']', '{', '}', '"', '\\':
						tricky = true
					}
				}
			}
			i = e - 1
		}
	}
	return tricky || (arr && obj)
}

func c11Compare(what string, fp int, ferr error, p int) error {
	if ferr != nil {
		return fmt.Errorf("SkipValue succeeds with p=%d but SkipValueFast(in, %s) fails: %v", p, what, ferr)
	}
	if fp != p {
		return fmt.Errorf("SkipValue returns p=%d but SkipValueFast(in, %s) returns p=%d", p, what, fp)
	}
	return nil
}

// CheckC11: wherever SkipValue succeeds, SkipValueFast succeeds with the same offset
// (buffer nil / fresh / used). Where the reference says the first value is well-formed
// within the depth limit, the common offset is also the reference's.
func CheckC11(c *core.Case) error {
	if c.Kind == "cold" {
		return checkCold(c)
	}
	in := inputOf(c)
	p, err := rjson.SkipValue(in, nil)
	if err != nil {
		// malformed for SkipValue: SkipValueFast may accept or reject; only totality (C10).
		rjson.SkipValueFast(in, nil)
		return nil
	}
	fp, ferr := rjson.SkipValueFast(in, nil)
	if e := c11Compare("nil", fp, ferr, p); e != nil {
		return e
	}
	fp, ferr = rjson.SkipValueFast(in, &rjson.Buffer{})
	if e := c11Compare("fresh buffer", fp, ferr, p); e != nil {
		return e
	}
	b := replayBuffer(c)
	if isFreshHistory(c) {
		// the generators reuse one scratch slice for consecutive inputs (same first byte, new
		// contents): replay the epoch the same way, every document written over the previous one
		in = aliasInto(historyArena(c), in)
		for _, s := range c.Steps {
			rjson.SkipValueFast(aliasInto(historyArena(c), s.In), b)
		}
		in = aliasInto(historyArena(c), c.In)
	} else {
		for _, s := range c.Steps {
			rjson.SkipValueFast(s.In, b)
		}
	}
	fp, ferr = rjson.SkipValueFast(in, b)
	return c11Compare("used buffer", fp, ferr, p)
}

type c11State struct {
	r    *core.Rec
	used *rjson.Buffer
	hist history
	prim *rjson.Buffer
}

func (s *c11State) input(kind string, in []byte) error {
	if s.used == nil {
		s.used = s.hist.next()
	}
	p, err := rjson.SkipValue(in, nil)
	if err != nil {
		// outside the property's domain; still exercised (must return), not counted as non-trivial
		rjson.SkipValueFast(in, s.used)
		s.hist.add(in)
		if s.hist.full() {
			s.used = s.hist.next()
		}
		s.r.EvalN(1)
		s.r.Label("domain.skipvalue-fails")
		return nil
	}
	key := core.Hash(in)
	nt := p <= len(in) && c11Nontrivial(in[:p])
	s.r.Eval(key, nt)
	s.r.Label("domain.skipvalue-ok")
	if nt && s.r.WantSample(key) {
		s.r.SampleInput(key, kind, in, "end", p)
	}
	fp, ferr := rjson.SkipValueFast(in, nil)
	if e := c11Compare("nil", fp, ferr, p); e != nil {
		return e
	}
	fp, ferr = rjson.SkipValueFast(in, s.used)
	if e := c11Compare("long-lived buffer", fp, ferr, p); e != nil {
		return &caseErr{&core.Case{Prop: "C11", Kind: kind, In: append([]byte(nil), in...), Steps: s.hist.steps("C11"), Strs: s.hist.marker()}, e}
	}
	s.hist.add(in)
	if s.hist.full() {
		s.used = s.hist.next()
	}
	return nil
}
