package props

import (
	"fmt"

	"verifharness/core"
	"verifharness/ref"

	"github.com/willabides/rjson"
)

func init() { Checks["C03"] = CheckC03 }

type c03Info struct {
	wantOK     bool
	nontrivial bool
	stats      ref.Stats
	invalidUTF bool
}

var errStdDisagree = errOracle

// c03Oracle computes the expected outcome and cross-checks the reference tree with
// encoding/json (exactly when the text is valid UTF-8; after replacement of invalid bytes
// when no two keys of one object collide).
func c03Oracle(in []byte) (end int, tree interface{}, info c03Info, err error) {
	end = ref.Skip(in, ref.MaxDepth)
	var rerr error
	if end >= 0 {
		tree, _, rerr = ref.Decode(in)
	}
	info.wantOK = end >= 0 && rerr == nil
	if end >= 0 && ref.HasRiskyNumber(in[:end]) {
		// encoding/json converts numbers with strconv.ParseFloat, which mis-scales these
		// literals (ref/number.go: value and even overflow differ); the reference stands alone
		if info.wantOK {
			info.invalidUTF = ref.HasInvalidUTF8(in[:end])
			info.stats = ref.TreeStats(tree)
			info.nontrivial = info.stats.MaxMembers >= 2 || info.stats.Depth >= 3
		}
		return end, tree, info, nil
	}
	sv, se, serr := ref.StdDecode(in)
	if (serr == nil) != info.wantOK {
		return end, tree, info, errStdDisagree
	}
	if !info.wantOK {
		return end, tree, info, nil
	}
	if se != end {
		return end, tree, info, errStdDisagree
	}
	info.invalidUTF = ref.HasInvalidUTF8(in[:end])
	if !info.invalidUTF {
		if !ref.Equal(tree, sv) {
			return end, tree, info, errStdDisagree
		}
	} else {
		mapped, collide := ref.MapStrings(tree, ref.ReplaceString)
		if !collide && !ref.Equal(mapped, sv) {
			return end, tree, info, errStdDisagree
		}
	}
	info.stats = ref.TreeStats(tree)
	info.nontrivial = info.stats.MaxMembers >= 2 || info.stats.Depth >= 3
	return end, tree, info, nil
}

func c03Compare(name string, v interface{}, p int, err error, wantOK bool, tree interface{}, end int) error {
	if (err == nil) != wantOK {
		return fmt.Errorf("%s: err=%v p=%d; reference and encoding/json: success=%v (end=%d)", name, err, p, wantOK, end)
	}
	if !wantOK {
		return nil
	}
	if p != end {
		return fmt.Errorf("%s returned p=%d; the value ends at %d", name, p, end)
	}
	if !ref.Equal(v, tree) {
		return fmt.Errorf("%s returned a different tree: got %.300v want %.300v", name, fmt.Sprintf("%#v", v), fmt.Sprintf("%#v", tree))
	}
	return nil
}

// c03Check runs ReadValue / ReadObject / ReadArray (package functions and methods of the
// given reader; a fresh reader when vr is nil).
func c03Check(in []byte, vr *rjson.ValueReader) (info c03Info, err error) {
	end, tree, info, oerr := c03Oracle(in)
	if oerr != nil {
		return info, oerr
	}
	if vr == nil {
		vr = &rjson.ValueReader{}
	}
	v, p, e := rjson.ReadValue(in)
	if err := c03Compare("ReadValue", v, p, e, info.wantOK, tree, end); err != nil {
		return info, err
	}
	v, p, e = vr.ReadValue(in)
	if err := c03Compare("ValueReader.ReadValue", v, p, e, info.wantOK, tree, end); err != nil {
		return info, err
	}
	i0 := ref.SkipWS(in, 0)
	isObj := end >= 0 && in[i0] == '{'
	isArr := end >= 0 && in[i0] == '['
	{
		o, p, e := rjson.ReadObject(in)
		var ov interface{}
		if e == nil {
			ov = o
		}
		if err := c03Compare("ReadObject", ov, p, e, info.wantOK && isObj, tree, end); err != nil {
			return info, err
		}
		o, p, e = vr.ReadObject(in)
		ov = nil
		if e == nil {
			ov = o
		}
		if err := c03Compare("ValueReader.ReadObject", ov, p, e, info.wantOK && isObj, tree, end); err != nil {
			return info, err
		}
	}
	{
		a, p, e := rjson.ReadArray(in)
		var av interface{}
		if e == nil {
			av = a
		}
		if err := c03Compare("ReadArray", av, p, e, info.wantOK && isArr, tree, end); err != nil {
			return info, err
		}
		a, p, e = vr.ReadArray(in)
		av = nil
		if e == nil {
			av = a
		}
		if err := c03Compare("ValueReader.ReadArray", av, p, e, info.wantOK && isArr, tree, end); err != nil {
			return info, err
		}
	}
	return info, nil
}

// CheckC03 uses a fresh reader (reader reuse is C15's subject).
func CheckC03(c *core.Case) error {
	if c.Kind == "cold" {
		return checkCold(c)
	}
	_, err := c03Check(inputOf(c), nil)
	return err
}
