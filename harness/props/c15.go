package props

import (
	"fmt"
	"runtime"
	"runtime/debug"
	"strconv"
	"strings"

	"verifharness/core"
	"verifharness/ref"

	"github.com/willabides/rjson"
)

func init() { Checks["C15"] = CheckC15 }

// C15 step encoding: Kind = "ReadValue" | "ReadObject" | "ReadArray" (In = document),
// "GC" (empties the sync.Pools), "mutate" (Ints[0] = index of a kept result to scramble).

type c15Kept struct {
	live    interface{}
	snap    interface{}
	mutated bool
	step    int
	large   bool
}

type c15Runner struct {
	vr          rjson.ValueReader
	kept        []c15Kept
	steps       int
	calls       int
	failedYet   bool
	okAfterFail bool
	beat        func() // progress signal for the recorder's watchdog (bulk steps take many seconds)
}

// keep retains a result for later comparison: at most 10 results, of which at most 2
// large ones (comparing every kept tree after every step must stay cheap); when full the
// oldest of the same size class is dropped.
func (r *c15Runner) keep(k c15Kept) {
	n, nl, oldest := 0, 0, -1
	for i, x := range r.kept {
		if x.large == k.large {
			if oldest < 0 {
				oldest = i
			}
			if k.large {
				nl++
			} else {
				n++
			}
		}
	}
	if (k.large && nl >= 6) || (!k.large && n >= 8) {
		r.kept = append(r.kept[:oldest], r.kept[oldest+1:]...)
	}
	r.kept = append(r.kept, k)
}

// c15Probes are read after every caller-side modification of an earlier result.
var c15Probes = [][]byte{
	[]byte(`{"a":{},"b":[],"c":"","d":[{}],"e":{"x":[ ]},"f":{ }}`),
	[]byte(`[{},[],"",{"k":{}},[[]],0,null,true]`),
	[]byte(`{}`),
	[]byte(`[]`),
}

type c15StepInfo struct {
	nontrivial bool
	ok         bool
}

func c15Read(vr *rjson.ValueReader, kind string, in []byte) (interface{}, int, error) {
	switch kind {
	case "ReadValue":
		return vr.ReadValue(in)
	case "ReadObject":
		o, p, err := vr.ReadObject(in)
		if err != nil {
			return nil, p, err
		}
		return o, p, nil
	case "ReadArray":
		a, p, err := vr.ReadArray(in)
		if err != nil {
			return nil, p, err
		}
		return a, p, nil
	}
	panic("unknown C15 step kind " + kind)
}

func (r *c15Runner) checkKept(when string) error {
	for i := range r.kept {
		k := &r.kept[i]
		if k.mutated {
			continue
		}
		if !ref.Equal(k.live, k.snap) {
			return fmt.Errorf("%s: the value returned at step %d changed: now %.200s, was %.200s", when, k.step, fmt.Sprintf("%#v", k.live), fmt.Sprintf("%#v", k.snap))
		}
	}
	return nil
}

func (r *c15Runner) step(step *core.Case) (info c15StepInfo, err error) {
	perr := core.Catch(func() error {
		r.steps++
		switch step.Kind {
		case "GC":
			runtime.GC()
			return r.checkKept("after GC")
		case "mutate":
			if len(r.kept) == 0 {
				return nil
			}
			idx := 0
			if len(step.Ints) > 0 {
				idx = int(step.Ints[0]) % len(r.kept)
				if idx < 0 {
					idx = -idx
				}
			}
			scrambleTree(r.kept[idx].live)
			r.kept[idx].mutated = true
			if err := r.checkKept(fmt.Sprintf("after the caller modified the value returned at step %d", r.kept[idx].step)); err != nil {
				return err
			}
			// nothing the caller did to that value may show in what any reader returns next
			// (containers shared between results, e.g. one package-level empty map)
			for _, doc := range c15Probes {
				tree, _, _ := ref.Decode(doc)
				for ri, vr := range []*rjson.ValueReader{new(rjson.ValueReader), &r.vr} {
					got, _, err := vr.ReadValue(append([]byte(nil), doc...))
					if err != nil || !ref.Equal(got, tree) {
						return fmt.Errorf("after the caller modified the value returned at step %d, ReadValue(%s) on %s returns (%.200s, %v); want %.200s",
							r.kept[idx].step, doc, []string{"a brand-new reader", "the reused reader"}[ri], fmt.Sprintf("%#v", got), err, fmt.Sprintf("%#v", tree))
					}
				}
			}
			return nil
		}
		if strings.HasPrefix(step.Kind, "bulk:") {
			return r.bulk(step)
		}
		in := []byte(step.In)
		kind := step.Kind
		var built interface{}
		if strings.HasPrefix(kind, "sized:") {
			kind = strings.TrimPrefix(kind, "sized:")
			in, built = c15SizedDoc(kind, step.Ints)
		}
		work := append([]byte(nil), in...)
		var fresh rjson.ValueReader
		want, wp, werr := c15Read(&fresh, kind, append([]byte(nil), in...))
		got, gp, gerr := c15Read(&r.vr, kind, work)
		r.calls++
		if (gerr == nil) != (werr == nil) {
			return fmt.Errorf("%s on the reused reader: err=%v (p=%d); a brand-new reader: err=%v (p=%d)", step.Kind, gerr, gp, werr, wp)
		}
		if werr == nil {
			if gp != wp {
				return fmt.Errorf("%s on the reused reader returned p=%d; a brand-new reader returns p=%d", step.Kind, gp, wp)
			}
			if !ref.Equal(got, want) {
				return fmt.Errorf("%s on the reused reader returned %.200s; a brand-new reader returns %.200s", step.Kind, fmt.Sprintf("%#v", got), fmt.Sprintf("%#v", want))
			}
			// tie the fresh result to the reference model as well
			if built != nil {
				if !ref.Equal(got, built) {
					return fmt.Errorf("%s of a built document (sizes %v) on the reused reader returned %.200s; the document was built from %.200s", kind, step.Ints, fmt.Sprintf("%#v", got), fmt.Sprintf("%#v", built))
				}
			} else if end := ref.Skip(in, ref.MaxDepth); end >= 0 {
				if tree, _, derr := ref.Decode(in); derr == nil && !ref.Equal(want, tree) {
					return fmt.Errorf("%s on a brand-new reader returned %.200s; the reference tree is %.200s", step.Kind, fmt.Sprintf("%#v", want), fmt.Sprintf("%#v", tree))
				}
			}
			info.ok = true
			if r.failedYet {
				r.okAfterFail = true
			}
			switch got.(type) {
			case []interface{}, map[string]interface{}, string:
				r.keep(c15Kept{live: got, snap: cloneTree(got), step: r.steps - 1, large: len(in) > 2048})
			}
		} else {
			r.failedYet = true
		}
		// the input may be reused by the caller afterwards
		for i := range work {
			work[i] = 0xAA
		}
		if err := r.checkKept("after " + step.Kind); err != nil {
			return err
		}
		containers := 0
		for _, k := range r.kept {
			switch k.live.(type) {
			case []interface{}, map[string]interface{}:
				containers++
			}
		}
		info.nontrivial = r.calls >= 3 && r.okAfterFail && containers >= 1
		return nil
	})
	return info, perr
}

// c15SizedDoc builds the document of a sized step and the tree it denotes. Ints = [variant,
// base, n1, n2, ...]. One size: an array of n1 numbers base+i (an object "k<i>": base+i for
// ReadObject or variant 1). Several sizes: those containers as siblings in one parent
// ({"rows":[...]} for ReadObject, otherwise an array).
func c15SizedDoc(kind string, ints []int64) ([]byte, interface{}) {
	if len(ints) < 3 {
		return []byte("[]"), []interface{}{}
	}
	variant, base, sizes := ints[0], ints[1], ints[2:]
	var b []byte
	one := func(n int64, obj bool) interface{} {
		if n < 0 {
			n = 0
		}
		if obj {
			m := make(map[string]interface{}, n)
			b = append(b, '{')
			for i := int64(0); i < n; i++ {
				if i > 0 {
					b = append(b, ',')
				}
				b = append(b, '"', 'k')
				b = strconv.AppendInt(b, i, 10)
				b = append(b, '"', ':')
				b = strconv.AppendInt(b, base+i, 10)
				m["k"+strconv.FormatInt(i, 10)] = float64(base + i)
			}
			b = append(b, '}')
			return m
		}
		a := make([]interface{}, 0, n)
		b = append(b, '[')
		for i := int64(0); i < n; i++ {
			if i > 0 {
				b = append(b, ',')
			}
			b = strconv.AppendInt(b, base+i, 10)
			a = append(a, float64(base+i))
		}
		b = append(b, ']')
		base += 1000003
		return a
	}
	if len(sizes) == 1 {
		v := one(sizes[0], kind == "ReadObject" || (variant%2 == 1 && kind == "ReadValue"))
		return b, v
	}
	rows := make([]interface{}, 0, len(sizes))
	if kind == "ReadObject" {
		b = append(b, `{"rows":`...)
	}
	b = append(b, '[')
	for i, n := range sizes {
		if i > 0 {
			b = append(b, ',')
		}
		rows = append(rows, one(n, variant%2 == 1))
	}
	b = append(b, ']')
	if kind == "ReadObject" {
		b = append(b, '}')
		return b, map[string]interface{}{"rows": rows}
	}
	return b, rows
}

// c15BulkDoc builds the document of a bulk step: n members of one kind.
func c15BulkDoc(n int, variant int64) []byte {
	var member, open, cl string
	switch variant % 4 {
	case 0:
		member, open, cl = "0", "[", "]"
	case 1:
		member, open, cl = `"a":0`, "{", "}" // one key repeated: n fields, one entry
	case 2:
		member, open, cl = `{"a":0}`, "[", "]"
	default:
		member, open, cl = `[]`, "[", "]"
	}
	b := make([]byte, 0, n*(len(member)+1)+2)
	b = append(b, open...)
	for i := 0; i < n; i++ {
		if i > 0 {
			b = append(b, ',')
		}
		b = append(b, member...)
	}
	return append(b, cl...)
}

// bulk: Kind "bulk:<ReadValue|ReadObject|ReadArray>", Ints = [members, repeats, variant]. The
// same large document is read repeats times on the reused reader (nothing kept); every
// result must match the brand-new reader's in error, offset and size, the last one in full.
// Reaches totals of tens of millions of values per reader.
func (r *c15Runner) bulk(step *core.Case) error {
	if len(step.Ints) < 3 {
		return fmt.Errorf("bad bulk step")
	}
	kind := strings.TrimPrefix(step.Kind, "bulk:")
	doc := c15BulkDoc(int(step.Ints[0]), step.Ints[2])
	var fresh rjson.ValueReader
	want, wp, werr := c15Read(&fresh, kind, doc)
	size := func(v interface{}) int {
		switch x := v.(type) {
		case []interface{}:
			return len(x)
		case map[string]interface{}:
			return len(x)
		}
		return -1
	}
	for i := int64(0); i < step.Ints[1]; i++ {
		if r.beat != nil {
			r.beat()
		}
		got, gp, gerr := c15Read(&r.vr, kind, doc)
		r.calls++
		if (gerr == nil) != (werr == nil) || gp != wp || size(got) != size(want) {
			return fmt.Errorf("%s of a %d-member document, repetition %d on the reused reader: (size %d, p=%d, err=%v); a brand-new reader: (size %d, p=%d, err=%v)",
				kind, step.Ints[0], i, size(got), gp, gerr, size(want), wp, werr)
		}
		if i == step.Ints[1]-1 && werr == nil && !ref.Equal(got, want) {
			return fmt.Errorf("%s of a %d-member document, repetition %d on the reused reader differs from a brand-new reader's result", kind, step.Ints[0], i)
		}
	}
	return r.checkKept("after " + step.Kind)
}

// deterministicGC makes the garbage collector run only where a history says so: the
// sync.Pools inside a ValueReader are emptied by collections, so results of a history must
// not depend on when the runtime decides to collect. Returns a restore function.
func deterministicGC() func() {
	old := debug.SetGCPercent(-1)
	oldLimit := debug.SetMemoryLimit(6 << 30)
	runtime.GC()
	return func() {
		debug.SetGCPercent(old)
		debug.SetMemoryLimit(oldLimit)
	}
}

// CheckC15 replays a whole history on one fresh ValueReader.
func CheckC15(c *core.Case) error {
	defer deterministicGC()()
	var r c15Runner
	for i := range c.Steps {
		if _, err := r.step(&c.Steps[i]); err != nil {
			return fmt.Errorf("step %d: %w", i, err)
		}
	}
	return nil
}
