package props

import (
	"fmt"
	"runtime"
	"strconv"
	"strings"
	"testing"

	"verifharness/core"
	"verifharness/gen"

	"pgregory.net/rapid"
)

func TestC19(t *testing.T) {
	runtime.GOMAXPROCS(1)
	runProp(t, "C19", func(e *env) {
		r := e.r
		var batch []*zcase
		flush := func() bool {
			if len(batch) == 0 {
				return true
			}
			defer func() { batch = batch[:0] }()
			r.Idle()
			// cold measurement first: one pass right after two collections
			if coldMallocs(batch) > 0 {
				if z := findColdAllocating(batch); z != nil {
					n := coldMallocs([]*zcase{z})
					c := &core.Case{Prop: "C19", Kind: "alloc-cold", In: z.in, Strs: []string{c19Funcs[z.fn]}}
					r.Fail(c, fmt.Errorf("%s allocates %d times in a successful call on %.80q made right after a garbage collection (caller-side buffers warmed; state the caller cannot warm is cold)", c19Funcs[z.fn], n, z.in))
					return false
				}
				r.Label("noise.cold-batch-nonzero-not-confirmed")
			}
			if allocsOf(batch, 3) == 0 {
				return true
			}
			z := findAllocating(batch)
			if z == nil {
				r.Label("noise.batch-nonzero-not-confirmed")
				return true
			}
			a, _ := confirmAlloc(z)
			c := &core.Case{Prop: "C19", Kind: "alloc", In: z.in, Strs: []string{c19Funcs[z.fn]}}
			r.Fail(c, fmt.Errorf("%s allocates %.1f times per successful call on %.80q (warmed buffer, destination with spare capacity, non-allocating handler)", c19Funcs[z.fn], a, z.in))
			return false
		}
		add := func(kind string, fn int, in []byte) bool {
			z, ok := newZcase(fn, in)
			if !ok {
				r.Label("skipped.not-successful")
				return true
			}
			nt := c19Nontrivial(fn, in)
			key := core.HashInts(core.Hash(in), int64(fn))
			r.Eval(key, nt)
			r.Label("fn." + c19Funcs[fn])
			if nt && r.WantSample(key) {
				r.SampleInput(key, kind, in, "func", c19Funcs[fn])
			}
			batch = append(batch, z)
			if len(batch) >= 512 {
				return flush()
			}
			return true
		}
		fnsFor := func(names ...string) []int {
			var out []int
			for _, n := range names {
				out = append(out, c19FuncIndex(n))
			}
			return out
		}
		floatFns := fnsFor("ReadFloat64", "DecodeFloat64")
		intFns := fnsFor("ReadInt64", "ReadUint64", "ReadInt32", "ReadUint32", "ReadInt", "ReadUint", "DecodeInt64", "DecodeUint64", "DecodeInt32", "DecodeUint32", "DecodeInt", "DecodeUint", "ReadFloat64")
		docFns := fnsFor("SkipValue", "SkipValueFast", "Valid", "HandleArrayValues", "HandleObjectValues", "NextToken", "NextTokenType", "HandleArrayValues/recursive", "HandleObjectValues/recursive")
		strFns := fnsFor("ReadStringBytes", "SkipValue", "Valid", "ReadStringBytes/arena")
		allDecode := fnsFor("DecodeFloat64", "DecodeInt64", "DecodeUint64", "DecodeInt32", "DecodeUint32", "DecodeInt", "DecodeUint", "DecodeBool")

		// 1. fixed pool: literals, null through every numeric/boolean Decode (a successful call)
		if e.enumStage("pool", "number pool x float/int readers; literals; null through every numeric/boolean Decode form; tokens", true) {
			ok := true
			for _, n := range gen.Nums {
				for _, fn := range append(append([]int{}, floatFns...), intFns...) {
					ok = ok && add("pool", fn, []byte(n)) && add("pool", fn, []byte(" "+n+","))
				}
			}
			for _, fn := range allDecode {
				ok = ok && add("pool", fn, []byte("null")) && add("pool", fn, []byte(" \nnull]"))
			}
			for _, s := range []string{"true", "false", " true,", "\tfalse}"} {
				ok = ok && add("pool", c19FuncIndex("ReadBool"), []byte(s)) && add("pool", c19FuncIndex("DecodeBool"), []byte(s))
			}
			for _, s := range []string{"null", " null", "null,"} {
				ok = ok && add("pool", c19FuncIndex("ReadNull"), []byte(s))
			}
			// the same scalars far into the input: offsets beyond 255, 4095 and 65535 (an offset kept
			// in an interface or formatted into a message costs an allocation from some size on)
			for _, pad := range []int{255, 256, 257, 300, 4096, 70000} {
				ws := strings.Repeat(" ", pad-1) + "\n"
				for _, fn := range allDecode {
					ok = ok && add("pool.far", fn, []byte(ws+"null")) && add("pool.far", fn, []byte(ws+"null ,1"))
				}
				for _, lit := range []string{"0", "-12", "1.5e3", "18446744073709551615", "123456789012345678901234567890"} {
					for _, fn := range append(append([]int{}, floatFns...), intFns...) {
						ok = ok && add("pool.far", fn, []byte(ws+lit+","))
					}
				}
				for _, s := range []string{"true", "false"} {
					ok = ok && add("pool.far", c19FuncIndex("ReadBool"), []byte(ws+s)) && add("pool.far", c19FuncIndex("DecodeBool"), []byte(ws+s))
				}
				ok = ok && add("pool.far", c19FuncIndex("ReadNull"), []byte(ws+"null")) && add("pool.far", c19FuncIndex("NextTokenType"), []byte(ws+"[")) && add("pool.far", c19FuncIndex("NextToken"), []byte(ws+"{"))
				for _, fn := range strFns {
					ok = ok && add("pool.far", fn, []byte(ws+`"plain"`)) && add("pool.far", fn, []byte(ws+`"esc\n"`))
				}
			}
			for b := 0; b < 256 && ok; b++ {
				ok = add("pool", c19FuncIndex("NextTokenType"), []byte{' ', byte(b)}) && add("pool", c19FuncIndex("NextToken"), []byte{'\n', byte(b), 'x'})
			}
			if ok {
				flush()
			}
		}
		// 2. floats on every conversion path (the generators of C04)
		e.rapidStage("floats", "rapid", e.cfg.N(1500, 200000), func(rt *rapid.T) {
			bits := splitmix(rapid.Uint64().Draw(rt, "bits")) & 0x7fffffffffffffff
			switch rapid.IntRange(0, 3).Draw(rt, "fkind") {
			case 1:
				bits &= 0x000fffffffffffff
			case 2:
				bits = 0x7fe0000000000000 | bits&0x000fffffffffffff
			}
			x := fbits(bits)
			lits := []string{strconv.FormatFloat(x, 'e', -1, 64), strconv.FormatFloat(x, 'e', rapid.IntRange(17, 40).Draw(rt, "digits"), 64)}
			if rapid.IntRange(0, 3).Draw(rt, "halfway?") == 0 {
				lits = append(lits, halfwayVariants(midpointDecimal(x))[:3]...)
			}
			if f, ok := toFixed(lits[1]); ok {
				lits = append(lits, f)
			}
			for _, lit := range lits {
				for _, fn := range floatFns {
					if !add("float", fn, []byte(lit)) {
						rt.Fatalf("allocation found")
					}
				}
			}
		})
		// 2b. number spellings: the shared grid of integer / fraction / exponent digit counts
		// (long exponents with leading zeros, 800+ digit mantissas), and exponents beyond int64
		if e.enumStage("number-shapes", "number tokens over the shared digit-count grid (a third of it, by index) and 12 exponents beyond the int32 / int64 range, through the float readers", true) {
			var lits []string
			idx := 0
			for _, li := range numShapeLens {
				for fi := -1; fi < len(numShapeLens); fi++ {
					lf := 0
					if fi >= 0 {
						lf = numShapeLens[fi]
					}
					for _, le := range numShapeExpLens {
						idx++
						if idx%3 == 0 || le >= 19 && (li <= 2 || lf <= 2) {
							lits = append(lits, string(numShape(nil, li, lf, le, idx)))
						}
					}
				}
			}
			lits = append(lits, "1e-99999999999999999999", "0e99999999999999999999", "0.0E+9223372036854775808", "-0e-9223372036854775809", "1e-2147483648", "1e-4294967296", "0e2147483648",
				"1.5e-18446744073709551616", "0.000e+00000000000000000000000000000000000000000000000001", "1E-000000000000000000000000000000000000000000000000000000000000000000005", "12345678901234567890e-340282366920938463463374607431768211456", "0e340282366920938463463374607431768211456")
			// integer parts beyond the 800-digit buffer of the multi-precision fallback, on heads
			// that defeat the fast paths (exact ties)
			for _, n := range []int{799, 800, 801, 802, 900, 1000, 1279, 1281, 1500, 4000} {
				lits = append(lits, "9007199254740993"+strings.Repeat("0", n-16)+fmt.Sprintf("e-%d", n-16), "1"+strings.Repeat("0", n-1)+fmt.Sprintf("e-%d", n-1),
					"9007199254740993"+strings.Repeat("0", n-17)+"1"+fmt.Sprintf(".0e-%d", n-16), "4503599627370497"+strings.Repeat("0", n-16)+".5"+fmt.Sprintf("E-%d", n-16))
			}
			ok := true
			for i, lit := range lits {
				if !e.cfg.Mine(i) || !ok {
					continue
				}
				for _, fn := range floatFns {
					if !add("number-shape", fn, []byte(lit)) {
						ok = false
						break
					}
				}
			}
		}
		// 3. integers round the type bounds
		if e.enumStage("integers", "integers within 40 of each type bound and digit-count switch-over, both signs, all integer readers and Decode forms", true) {
			ok := true
			for _, bs := range []string{"0", "2147483648", "4294967296", "9223372036854775808", "18446744073709551616", "1000000000000000000", "999999999999999999", "10000000000000000000"} {
				base, _ := strconv.ParseUint(bs, 10, 64)
				for d := -40; d <= 40 && ok; d++ {
					var s string
					if bs == "18446744073709551616" {
						if d >= 0 {
							continue
						}
						s = strconv.FormatUint(^uint64(0)-uint64(-d-1), 10)
					} else {
						v := int64(base) + int64(d)
						if bs == "9223372036854775808" || bs == "10000000000000000000" {
							s = strconv.FormatUint(base+uint64(int64(d)), 10)
						} else {
							s = strconv.FormatInt(v, 10)
						}
					}
					for _, fn := range intFns {
						ok = ok && add("integer", fn, []byte(s))
						if s[0] != '-' {
							ok = ok && add("integer", fn, []byte("-"+s))
						}
					}
				}
			}
			if ok {
				flush()
			}
		}
		// 4. strings with escapes into a destination with spare capacity
		e.rapidStage("strings", "rapid", e.cfg.N(4000, 400000), func(rt *rapid.T) {
			content := gen.StrContent(rt, rapid.IntRange(0, 30).Draw(rt, "pieces"))
			tok := append(append([]byte{'"'}, content...), '"')
			ok := add("string", c19FuncIndex("UnescapeStringContent"), content) && add("string", c19FuncIndex("UnescapeStringContent/arena"), content)
			for _, fn := range strFns {
				ok = ok && add("string", fn, tok)
			}
			if !ok {
				rt.Fatalf("allocation found")
			}
		})
		// 5. documents: validating/fast skip, Valid, traversals with a declining handler
		e.rapidStage("documents", "rapid", e.cfg.N(5000, 500000), func(rt *rapid.T) {
			var b []byte
			switch rapid.IntRange(0, 9).Draw(rt, "dockind") {
			case 0:
				d := []int{2, 5, 17, 64, 300, 2000, 9999, 10000}[rapid.IntRange(0, 7).Draw(rt, "depth")]
				b = gen.NestSpec{Depth: d, Pattern: gen.NestPatterns[rapid.IntRange(0, len(gen.NestPatterns)-1).Draw(rt, "pat")], Close: d,
					Bottom: []string{"", "1", `"x\n"`}[rapid.IntRange(0, 2).Draw(rt, "bottom")], Sibling: rapid.Bool().Draw(rt, "sib")}.Build()
			case 1, 2, 3:
				b = gen.Container(rt, nil, gen.AnyProfile(rt), byte("[{"[rapid.IntRange(0, 1).Draw(rt, "kind")]), rapid.IntRange(1, 6).Draw(rt, "depth"))
			default:
				b = gen.DocTrail(rt, gen.AnyProfile(rt))
			}
			for _, fn := range docFns {
				if !add("document", fn, b) {
					rt.Fatalf("allocation found")
				}
			}
		})
		if !r.Failed() {
			flush()
		}
		// 6. cross-warming: the Buffer is warmed by ONE call of a different function on the very
		// same document, then the first call of the function under test is measured alone
		// (AllocsPerRun's own warm-up call would hide a first-call allocation). A function only
		// counts as a warmer for functions whose stack need on that document is not larger, so
		// the warmers are Valid and SkipValue (one slot per nesting level): SkipValueFast does not
		// count objects inside arrays (or arrays inside objects) and the traversals keep the
		// outermost container off the stack, so a Buffer they have used on a document is not
		// "warmed" for the validating skippers on the same document (measured on the pinned tree:
		// one 8..16-byte growth; read as outside the property's precondition, see DESIGN 0.6).
		if e.enumStage("cross-warm", "depths 1..140 and 8 larger ones x {array, object, mixed} nesting x warmer x measured function: first call on a Buffer warmed by one call of another function on the same document", true) {
			skipFam := []string{"Valid", "SkipValue", "SkipValueFast"}
			travFam := []string{"HandleArrayValues", "HandleObjectValues"}
			depths := []int{}
			for d := 1; d <= 140; d++ {
				depths = append(depths, d)
			}
			depths = append(depths, 255, 256, 257, 512, 513, 848, 1024, 1025, 4096, 9999, 10000)
			var ms runtime.MemStats
			idx := 0
		cw:
			for _, d := range depths {
				for pi, pat := range []string{"a", "o", "ao"} {
					idx++
					if !e.cfg.Mine(idx) {
						continue
					}
					doc := gen.NestSpec{Depth: d, Pattern: pat, Close: d, Bottom: "1"}.Build()
					for _, warm := range []string{"Valid", "SkipValue"} {
						measured := append(append([]string{}, skipFam...), travFam...)
						for _, fn := range measured {
							min := ^uint64(0)
							okBoth := true
							for trial := 0; trial < 3 && min != 0; trial++ {
								w, wok := newZcaseCold(c19FuncIndex(warm), doc)
								if !wok {
									okBoth = false
									break
								}
								z := &zcase{fn: c19FuncIndex(fn), in: w.in, buf: w.buf, h: w.h}
								runtime.ReadMemStats(&ms)
								before := ms.Mallocs
								ok := z.run()
								runtime.ReadMemStats(&ms)
								if !ok {
									okBoth = false
									break
								}
								if x := ms.Mallocs - before; x < min {
									min = x
								}
							}
							if !okBoth {
								continue
							}
							key := core.HashInts(core.Hash(doc, []byte(warm), []byte(fn)), int64(pi))
							r.Eval(key, d >= 2)
							r.Label("crosswarm." + warm + "->" + fn)
							if min > 0 {
								c := &core.Case{Prop: "C19", Kind: "cross-warm", In: doc, Strs: []string{fn, warm}}
								r.Fail(c, fmt.Errorf("%s allocates %d times on its first call with a Buffer that %s has just used successfully on the same %d-deep document", fn, min, warm, d))
								break cw
							}
						}
					}
				}
			}
		}
	})
}

func fbits(b uint64) float64 {
	x := fromBits(b)
	if x != x || x > 1.7976931348623157e308 { // NaN or Inf
		return 1.7976931348623157e308
	}
	if x == 0 {
		return 5e-324
	}
	return x
}
