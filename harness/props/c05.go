package props

import (
	"encoding/json"
	"fmt"
	"math"
	"math/big"
	"strconv"

	"verifharness/core"
	"verifharness/ref"

	"github.com/willabides/rjson"
)

func init() { Checks["C05"] = CheckC05 }

// intReader is one integer reader (or Decode form) with the bounds of its target type.
type intReader struct {
	name     string
	min, max *big.Int
	// run returns the value as a big.Int
	run func(in []byte) (*big.Int, int, error)
	// std decodes a whole-input token with encoding/json into the same target type
	std func(in []byte) (*big.Int, error)
}

func bigI(i int64) *big.Int  { return big.NewInt(i) }
func bigU(u uint64) *big.Int { return new(big.Int).SetUint64(u) }

var (
	intMin, intMax = bigI(math.MinInt), bigI(math.MaxInt)
	uintMax        = bigU(math.MaxUint)
)

var c05Readers = []intReader{
	{"ReadInt64", bigI(math.MinInt64), bigI(math.MaxInt64), func(in []byte) (*big.Int, int, error) { v, p, e := rjson.ReadInt64(in); return bigI(v), p, e },
		func(in []byte) (*big.Int, error) { var v int64; e := json.Unmarshal(in, &v); return bigI(v), e }},
	{"ReadUint64", bigI(0), bigU(math.MaxUint64), func(in []byte) (*big.Int, int, error) { v, p, e := rjson.ReadUint64(in); return bigU(v), p, e },
		func(in []byte) (*big.Int, error) { var v uint64; e := json.Unmarshal(in, &v); return bigU(v), e }},
	{"ReadInt32", bigI(math.MinInt32), bigI(math.MaxInt32), func(in []byte) (*big.Int, int, error) { v, p, e := rjson.ReadInt32(in); return bigI(int64(v)), p, e },
		func(in []byte) (*big.Int, error) { var v int32; e := json.Unmarshal(in, &v); return bigI(int64(v)), e }},
	{"ReadUint32", bigI(0), bigU(math.MaxUint32), func(in []byte) (*big.Int, int, error) { v, p, e := rjson.ReadUint32(in); return bigU(uint64(v)), p, e },
		func(in []byte) (*big.Int, error) {
			var v uint32
			e := json.Unmarshal(in, &v)
			return bigU(uint64(v)), e
		}},
	{"ReadInt", intMin, intMax, func(in []byte) (*big.Int, int, error) { v, p, e := rjson.ReadInt(in); return bigI(int64(v)), p, e },
		func(in []byte) (*big.Int, error) { var v int; e := json.Unmarshal(in, &v); return bigI(int64(v)), e }},
	{"ReadUint", bigI(0), uintMax, func(in []byte) (*big.Int, int, error) { v, p, e := rjson.ReadUint(in); return bigU(uint64(v)), p, e },
		func(in []byte) (*big.Int, error) { var v uint; e := json.Unmarshal(in, &v); return bigU(uint64(v)), e }},
	{"DecodeInt64", bigI(math.MinInt64), bigI(math.MaxInt64), func(in []byte) (*big.Int, int, error) {
		var v int64 = 77
		p, e := rjson.DecodeInt64(in, &v)
		return bigI(v), p, e
	}, nil},
	{"DecodeUint64", bigI(0), bigU(math.MaxUint64), func(in []byte) (*big.Int, int, error) {
		var v uint64 = 77
		p, e := rjson.DecodeUint64(in, &v)
		return bigU(v), p, e
	}, nil},
	{"DecodeInt32", bigI(math.MinInt32), bigI(math.MaxInt32), func(in []byte) (*big.Int, int, error) {
		var v int32 = 77
		p, e := rjson.DecodeInt32(in, &v)
		return bigI(int64(v)), p, e
	}, nil},
	{"DecodeUint32", bigI(0), bigU(math.MaxUint32), func(in []byte) (*big.Int, int, error) {
		var v uint32 = 77
		p, e := rjson.DecodeUint32(in, &v)
		return bigU(uint64(v)), p, e
	}, nil},
	{"DecodeInt", intMin, intMax, func(in []byte) (*big.Int, int, error) {
		var v int = 77
		p, e := rjson.DecodeInt(in, &v)
		return bigI(int64(v)), p, e
	}, nil},
	{"DecodeUint", bigI(0), uintMax, func(in []byte) (*big.Int, int, error) {
		var v uint = 77
		p, e := rjson.DecodeUint(in, &v)
		return bigU(uint64(v)), p, e
	}, nil},
}

func init() {
	if strconv.IntSize != 64 {
		panic("harness assumes a 64-bit int (the property's bounds follow strconv.IntSize)")
	}
}

var twoTo16 = big.NewInt(1 << 16)

// c05One checks one reader on one input. Returns (nontrivial, inDomain, err).
func c05One(rd *intReader, in []byte) (nontrivial bool, err error) {
	ok, isInt, val, end := ref.IntToken(in)
	i := ref.SkipWS(in, 0)
	neg := i < len(in) && in[i] == '-'
	unsigned := rd.min.Sign() == 0
	want := ok && isInt && val.Cmp(rd.min) >= 0 && val.Cmp(rd.max) <= 0 && !(unsigned && neg)
	decodeForm := rd.std == nil
	if decodeForm && !want && hasLit(in, i, "null") {
		// Decode forms on null input are C12's business ("behave the same on non-null input")
		return false, nil
	}
	if ok && isInt {
		d1 := new(big.Int).Sub(val, rd.min)
		d2 := new(big.Int).Sub(val, rd.max)
		nontrivial = d1.CmpAbs(twoTo16) <= 0 || d2.CmpAbs(twoTo16) <= 0 || end-i >= 18
	}
	// cross-check the oracle with encoding/json when the whole input is one number token
	if rd.std != nil && ok && i == 0 && end == len(in) {
		sv, serr := rd.std(in)
		if (serr == nil) != want || (want && sv.Cmp(val) != 0) {
			return nontrivial, errOracle
		}
	}
	got, p, gerr := rd.run(in)
	if (gerr == nil) != want {
		return nontrivial, fmt.Errorf("%s: err=%v (value %v, p=%d); reference: integer token=%v value=%v fits=%v", rd.name, gerr, got, p, ok && isInt, val, want)
	}
	if want {
		if got.Cmp(val) != 0 {
			return nontrivial, fmt.Errorf("%s returned %v; the literal's exact value is %v", rd.name, got, val)
		}
		if p != end {
			return nontrivial, fmt.Errorf("%s returned p=%d; the literal ends at %d", rd.name, p, end)
		}
	}
	return nontrivial, nil
}

// CheckC05: Ints[0] = reader index, or -1 for all readers.
func CheckC05(c *core.Case) error {
	if c.Kind == "cold" {
		return checkCold(c)
	}
	in := inputOf(c)
	for ri := range c05Readers {
		if len(c.Ints) > 0 && c.Ints[0] >= 0 && int(c.Ints[0]) != ri {
			continue
		}
		if _, err := c05One(&c05Readers[ri], in); err != nil {
			return err
		}
	}
	return nil
}
