package props

import (
	"fmt"
	"strings"

	"verifharness/core"
	"verifharness/gen"

	"pgregory.net/rapid"
)

// inputFn evaluates one input for a byte-level property. It returns an error on a
// violation. It must do its own counting on the recorder.
type inputFn func(kind string, in []byte) error

// feedOpts selects and sizes the shared byte-level stages (used by C01, C02, C10, C11, C13).
type feedOpts struct {
	shortlexQ, shortlexT int // max length for quick / thorough (0 = skip)
	sweepQ, sweepT       int // number of sweep base documents
	sweepMaxLen          int
	nestQ, nestT         int
	nestDepths           []int
	indentQ, indentT     int // pretty-printed depth shapes (indentation wider and narrower than the depth)
	mutQ, mutT           int
	nextByte             bool
	onlyValidBases       bool
	noDepthSites         bool
	depthSitesLite       bool // a 16-document subset (for expensive per-input checks)
	boundaryQ            int  // quick number of boundary base documents (default 4)
	boundaries           bool // long documents corrupted at positions round 64, 128, ..., 65536 (chunked scanners)
	alignment            bool // runs of every token class at every length 0..40 x special byte x tail length (word-at-a-time scanners)
	templateSweep        bool // the complete position x byte sweep on a fixed family of context x value templates
	tokenSweepQ          int  // number of generated base documents for the token-level sweep (0 = skip); 14 fixed templates are always included
	amplify              bool // one small element (every single-gap whitespace variant of 6 templates, and drawn ones) repeated > 10000 times in one container
	strRuns              bool // strings made of N directly adjacent escapes of one kind (N in 0..140 and round powers of two) + a closer, as value and key
	streams              bool // a complete first value (string-free or not, 3 sizes) followed by a tail that is not balanced by itself
	counts               int  // count sites x counts round 2^8..2^16 (1) and also round 2^20 (2); 0 = skip
	numShapes            int  // number tokens over a grid of (integer, fraction, exponent) digit counts; the value is the number of contexts (1..4), 0 = skip
}

// numShapeLens are the digit counts of the number-shape grid: round every power of two up to
// 4096, the 15..20-digit limits of the integer and float fast paths, and the 800-digit buffer
// of the float fallback.
var numShapeLens = []int{1, 2, 8, 15, 16, 17, 19, 20, 32, 64, 127, 128, 129, 255, 256, 257, 800, 801, 1024, 4097}

// numShapeExpLens are exponent digit counts (0 = no exponent).
var numShapeExpLens = []int{0, 1, 2, 3, 5, 6, 19, 20, 33, 129}

// numShape builds a number token with li integer digits, lf fraction digits (0 = none) and le
// exponent digits (0 = none); v varies sign, digit values, exponent letter and sign.
func numShape(buf []byte, li, lf, le, v int) []byte {
	if v&1 == 1 {
		buf = append(buf, '-')
	}
	if li == 1 && v&2 == 2 {
		buf = append(buf, '0')
	} else {
		for i := 0; i < li; i++ {
			d := byte('0' + (i*7+v+1)%10)
			if i == 0 && d == '0' {
				d = '9'
			}
			buf = append(buf, d)
		}
	}
	if lf > 0 {
		buf = append(buf, '.')
		for i := 0; i < lf; i++ {
			buf = append(buf, byte('0'+(i*3+v)%10))
		}
	}
	if le > 0 {
		buf = append(buf, "eE"[v>>2&1])
		switch v >> 3 % 3 {
		case 1:
			buf = append(buf, '+')
		case 2:
			buf = append(buf, '-')
		}
		for i := 0; i < le; i++ {
			d := byte('0' + (i+v)%10)
			if le <= 3 && i == 0 && d == '0' {
				d = '3'
			}
			if le > 3 && i < le-2 {
				d = '0' // long exponents are mostly leading zeros, so values stay in range
			}
			buf = append(buf, d)
		}
	}
	return buf
}

// countNs / countNsBig are the counts of the `counts` stage.
var countNs = []int{255, 256, 257, 511, 512, 513, 4095, 4096, 4097, 65535, 65536, 65537}
var countNsBig = []int{1<<20 - 1, 1 << 20, 1<<20 + 1, 3 << 20}

type countKind struct {
	name  string
	heavy bool // many members rather than many bytes of one token: skipped above 2^20+1
	build func(n int) []byte
}

func repBytes(b []byte, unit string, n int) []byte {
	for i := 0; i < n; i++ {
		b = append(b, unit[i%len(unit)])
	}
	return b
}

func repUnits(b []byte, unit string, n int) []byte {
	for i := 0; i < n; i++ {
		b = append(b, unit...)
	}
	return b
}

func countDoc(pre, unit, post string, n int, whole bool) []byte {
	b := make([]byte, 0, len(pre)+len(post)+n*len(unit)+8)
	b = append(b, pre...)
	if whole {
		b = repUnits(b, unit, n)
	} else {
		b = repBytes(b, unit, n)
	}
	return append(b, post...)
}

// countKinds: n counts the repeated thing, everything else is fixed and small.
var countKinds = []countKind{
	{"ws-lead-true", false, func(n int) []byte { return countDoc("", " ", "true", n, false) }},
	{"ws-lead-mixed-array", false, func(n int) []byte { return countDoc("", " \t\r\n", "[1]", n, false) }},
	{"ws-lead-string", false, func(n int) []byte { return countDoc("", "\n", `"s" `, n, false) }},
	{"ws-lead-number", false, func(n int) []byte { return countDoc("", " ", "-12.5e1,", n, false) }},
	{"ws-lead-null-object", false, func(n int) []byte { return countDoc("", "\r\n", `null`, n, false) }},
	{"ws-lead-eof", false, func(n int) []byte { return countDoc("", " \n", "", n, false) }},
	{"ws-lead-bad", false, func(n int) []byte { return countDoc("", " ", "\x0b1", n, false) }},
	{"ws-after-open", false, func(n int) []byte { return countDoc("[", " ", "1]", n, false) }},
	{"ws-before-comma", false, func(n int) []byte { return countDoc("[1", " \n", ",2]", n, false) }},
	{"ws-after-comma", false, func(n int) []byte { return countDoc(`{"a":1,`, "\t", `"b":2}`, n, false) }},
	{"ws-before-colon", false, func(n int) []byte { return countDoc(`{"a"`, " ", `:1}`, n, false) }},
	{"ws-after-colon", false, func(n int) []byte { return countDoc(`{"a":`, " \r", `[2]}`, n, false) }},
	{"ws-before-close", false, func(n int) []byte { return countDoc(`[{"a":"b"`, "\n", `}]`, n, false) }},
	{"ws-trailing", false, func(n int) []byte { return countDoc(`[1]`, " ", ``, n, false) }},
	{"ws-trailing-then-value", false, func(n int) []byte { return countDoc(`"x"`, " \n", `2`, n, false) }},
	{"int-digits", false, func(n int) []byte { return countDoc("1", "0123456789", "", n-1, false) }},
	{"int-digits-in-array", false, func(n int) []byte { return countDoc("[-7", "7", ",1]", n-1, false) }},
	{"frac-digits", false, func(n int) []byte { return countDoc("1.", "0123456789", "", n, false) }},
	{"frac-digits-in-object", false, func(n int) []byte { return countDoc(`{"k":0.`, "0", `1}`, n-1, false) }},
	{"frac-digits-then-exp", false, func(n int) []byte { return countDoc("[2.", "5", "e-3]", n, false) }},
	{"exp-digits", false, func(n int) []byte { return countDoc("1e", "0", "7", n-1, false) }},
	{"exp-digits-signed-in-array", false, func(n int) []byte { return countDoc("[1.5E-", "0", "2 ]", n-1, false) }},
	{"exp-digits-plus-fraction", false, func(n int) []byte { return countDoc(`{"a":3.25e+`, "0", "1}", n-1, false) }},
	{"string-plain", false, func(n int) []byte { return countDoc(`"`, "a", `"`, n, false) }},
	{"string-plain-in-array", false, func(n int) []byte { return countDoc(`["`, "abcdefg ", `",1]`, n, false) }},
	{"string-escapes", false, func(n int) []byte { return countDoc(`"`, `\n`, `"`, n, true) }},
	{"string-unicode-escapes", false, func(n int) []byte { return countDoc(`["`, `\u00e9`, `"]`, n, true) }},
	{"string-pairs", false, func(n int) []byte { return countDoc(`"`, `\ud83d\ude00`, `"`, n, true) }},
	{"string-multibyte", false, func(n int) []byte { return countDoc(`"`, "é", `"`, n, true) }},
	{"string-plain-then-escape", false, func(n int) []byte { return countDoc(`"`, "b", `\t"`, n, false) }},
	{"string-escape-then-plain", false, func(n int) []byte { return countDoc(`"\\`, "c", `"`, n, false) }},
	{"key-plain", false, func(n int) []byte { return countDoc(`{"`, "k", `":1}`, n, false) }},
	{"key-escaped", false, func(n int) []byte { return countDoc(`{"a":0,"\"`, "q", `":[true]}`, n, false) }},
	{"array-members", true, func(n int) []byte { return countDoc(`[1`, ",1", `]`, n-1, true) }},
	{"array-string-members", true, func(n int) []byte { return countDoc(`[""`, `,"x"`, `]`, n-1, true) }},
	{"array-container-members", true, func(n int) []byte { return countDoc(`[[]`, `,{}`, `]`, n-1, true) }},
	{"object-members", true, func(n int) []byte { return countDoc(`{"a":1`, `,"b":2`, `}`, n-1, true) }},
	{"object-members-nested", true, func(n int) []byte { return countDoc(`[{"a":null`, `,"":[0]`, `},2]`, n-1, true) }},
	{"values-behind", true, func(n int) []byte { return countDoc(`[]`, ` 1`, ``, n, true) }},
}

var defaultNestDepths = []int{1, 2, 3, 5, 17, 64, 9998, 9999, 10000, 10001, 10002, 20000}

// nextByteValues are complete values that get every possible next byte appended.
func nextByteValues() [][]byte {
	var vs [][]byte
	for _, n := range gen.Nums {
		vs = append(vs, []byte(n))
	}
	for _, s := range []string{"null", "true", "false", `""`, `"a"`, `"\n"`, `"é"`, `"𐀀"`, `"]"`, `"\\"`, `"\""`,
		"[]", "{}", "[1]", `{"a":1}`, `[[]]`, `[{}]`, `{"a":[]}`, `[1,2]`, `["]"]`, `{"}":"{"}`, `[1.5e3]`, `[-0]`, " 1", "\n[ ]", "\t{ }",
		`[1 , 2]`, `{"a" : 1 , "b" : [ ] }`, `[true,false,null]`, `[[[[1]]]]`, `{"a":{"b":{"c":{}}}}`} {
		vs = append(vs, []byte(s))
	}
	return vs
}

// feed drives the shared byte-level generators into f.
func (e *env) feed(o feedOpts, f inputFn) {
	r, cfg := e.r, e.cfg
	report := func(kind string, in []byte, err error) {
		r.Fail(caseOf(cfg.Prop, kind, in, err), err)
	}
	call := func(kind string, in []byte) error {
		r.Begin(kind, in)
		return core.Catch(func() error { return f(kind, in) })
	}

	// 1. bounded-exhaustive short strings
	if L := cfg.Pick(o.shortlexQ, o.shortlexT); L > 0 {
		sl := gen.Shortlex{Alphabet: gen.JSONAlphabet, MaxLen: L}
		if e.enumStage("shortlex", fmt.Sprintf("all %d strings of length <= %d over the %d-byte JSON alphabet", sl.Count(), L, len(sl.Alphabet)), true) {
			sl.Each(cfg.Shard, cfg.Shards, func(idx int, b []byte) bool {
				if err := call("shortlex", b); err != nil {
					report("shortlex", b, err)
					return false
				}
				return true
			})
		}
	}

	// 2. every value x every next byte x {nothing, one more byte}
	if o.nextByte && e.enumStage("nextbyte", "pool of complete values x 256 next bytes x 4 continuations", true) {
		conts := []string{"", "1", " ", "\""}
		buf := make([]byte, 0, 256)
	outer:
		for vi, v := range nextByteValues() {
			if !cfg.Mine(vi) {
				continue
			}
			for c := 0; c < 256; c++ {
				for _, ct := range conts {
					buf = append(append(append(buf[:0], v...), byte(c)), ct...)
					if err := call("nextbyte", buf); err != nil {
						report("nextbyte", buf, err)
						break outer
					}
				}
			}
			for cut := 0; cut <= len(v); cut++ {
				if err := call("truncate", v[:cut]); err != nil {
					report("truncate", v[:cut], err)
					break outer
				}
			}
		}
	}

	// 2b. alignment: word-at-a-time scanners fail at particular offsets modulo 8 and particular
	// distances from the end of the input, so every run length 0..40 of every token class is
	// combined with a special byte and every tail length 0..12, inside and outside containers
	if o.alignment && e.enumStage("alignment", "runs of length 0..40 of {string bytes, integer digits, fraction digits, exponent digits, whitespace} x 14 special bytes/escapes after the run x tails of length 0..12 x 4 contexts", true) {
		specials := []string{"", `\"`, `\\`, `\n`, `\u00e9`, "\x1f", "\x00", ":", ";", "?", "\x7f", "\xff", "e", "."}
		ctxs := [][2]string{{"", ""}, {"[", "]"}, {`{"k":`, "}"}, {`[1,{"a":[`, `]}]`}}
		buf := make([]byte, 0, 160)
		idx := 0
	align:
		for L := 0; L <= 40; L++ {
			for class := 0; class < 5; class++ {
				idx++
				if !cfg.Mine(idx) {
					continue
				}
				for _, sp := range specials {
					for T := 0; T <= 12; T += 1 + T/4 {
						for _, cx := range ctxs {
							buf = append(buf[:0], cx[0]...)
							run := func(c byte, n int) {
								for i := 0; i < n; i++ {
									buf = append(buf, c)
								}
							}
							switch class {
							case 0: // string content run, special, tail, closing quote
								buf = append(buf, '"')
								run('a', L)
								buf = append(buf, sp...)
								run('b', T)
								buf = append(buf, '"')
							case 1: // integer digits
								buf = append(buf, '1')
								run('7', L)
								buf = append(buf, sp...)
								run('3', T)
							case 2: // fraction digits
								buf = append(buf, "0."...)
								run('5', L+1)
								buf = append(buf, sp...)
								run('9', T)
							case 3: // exponent digits
								buf = append(buf, "1e"...)
								run('0', L)
								buf = append(buf, '1')
								buf = append(buf, sp...)
								run('2', T)
							default: // whitespace run before a value, special byte inside it
								run(' ', L)
								buf = append(buf, sp...)
								run('\n', T)
								buf = append(buf, "true"...)
							}
							buf = append(buf, cx[1]...)
							if err := call("alignment", buf); err != nil {
								report("alignment", buf, err)
								break align
							}
						}
					}
				}
			}
		}
	}

	// 2b". escape runs: strings of N adjacent escapes of one kind, then a closer, top-level,
	// as array member, object value and object key (batching decoders, look-back windows
	// that count backslashes, scratch growth inside members)
	if o.strRuns && e.enumStage("strruns", "strings of N adjacent escapes (N in 0..140, 254..258, 1022..1026) of 6 unit kinds + 5 closers x {top-level, array member, object value, object key}", true) {
		units := []string{`\u00e9`, `\u0041`, `\n`, `\ud83d\ude00`, `\"`, `\\`}
		closers := []string{`\ud83d\ude00`, `\ud83d`, `\\`, `z`, ``}
		var ns []int
		for n := 0; n <= 140; n++ {
			ns = append(ns, n)
		}
		for _, base := range []int{256, 1024} {
			for n := base - 2; n <= base+2; n++ {
				ns = append(ns, n)
			}
		}
		ctxs := [][2]string{{"", ""}, {"[1,", ",2]"}, {`{"a":`, `,"b":[]}`}, {"{", `:true}`}}
		idx := 0
		// strings that are nothing but structural bytes, more of them than the nesting limit or a
		// 64 KiB window (pre-scans that count brackets or quotes without tracking strings)
		for ui, u := range []string{"[", "{", "]", "}", "[{", `\"`, ",", ":"} {
			for ni, n := range []int{10001, 70000} {
				if !cfg.Mine(ui*2 + ni) {
					continue
				}
				for ci, cx := range ctxs {
					if (ui+ni+ci)%2 == 1 && ci > 0 {
						continue
					}
					b := append([]byte(cx[0]), '"')
					b = append(b, strings.Repeat(u, n)...)
					b = append(append(b, '"'), cx[1]...)
					if err := call("strruns", b); err != nil {
						report("strruns", b, err)
						break
					}
				}
			}
		}
	strruns:
		for _, n := range ns {
			for _, u := range units {
				idx++
				if !cfg.Mine(idx) {
					continue
				}
				for ci, cl := range closers {
					cx := ctxs[(idx+ci)%len(ctxs)]
					b := append([]byte(cx[0]), '"')
					b = append(b, strings.Repeat(u, n)...)
					b = append(append(append(b, cl...), '"'), cx[1]...)
					if err := call("strruns", b); err != nil {
						report("strruns", b, err)
						break strruns
					}
				}
			}
		}
	}

	// 2a*. the complete position x byte sweep (every truncation, 256 substitutions and 256
	// insertions at every position) on a FIXED family of templates: every value kind in every
	// context (top level, first / later array member, first / later object member, one and two
	// levels down in either container kind). The generated sweep bases below vary from run to
	// run; these make sure every grammar position of every context is swept in every run.
	if o.templateSweep && e.enumStage("template-sweep", "9 contexts x 18 value kinds (every number sub-state): every truncation, substitution (256) and insertion (256) at every position", true) {
		ctxs := [][2]string{{"", ""}, {"[", "]"}, {"[1,", "]"}, {`{"k":`, "}"}, {`{"a":1,"k":`, "}"}, {"[[", "]]"}, {`[{"k":`, "}]"}, {`{"k":[`, "]}"}, {`{"k":{"j":`, "}}"}}
		vals := []string{"1", "12", "0", "-0", "1.5", "10.25", "1e5", "12E+50", "-1.5e3", `"s"`, `"\\n"`, "true", "false", "null", "[]", "{}", "[1]", `{"x":1}`}
		idx := 0
	tsweep:
		for _, cx := range ctxs {
			for _, v := range vals {
				idx++
				if !cfg.Mine(idx) {
					continue
				}
				doc := []byte(cx[0] + v + cx[1])
				var ferr error
				var bad []byte
				gen.Sweep(doc, func(b []byte) bool {
					if err := call("template-sweep", b); err != nil {
						ferr, bad = err, keepSpare(b)
						return false
					}
					return true
				})
				if ferr != nil {
					report("template-sweep", bad, ferr)
					break tsweep
				}
			}
		}
	}

	// 2b*. token-level sweep: every drop of 1..3 consecutive tokens, every duplication and every
	// neighbour swap, on compact and spaced templates and generated documents (a member without
	// its key, two values in a row, a key where a value belongs: no single byte edit makes these)
	if o.tokenSweepQ > 0 {
		templates := []string{`{"a":{},"b":{}}`, `{"a":{"x":1},"b":{"y":2},"c":[]}`, `[{"a":{}},{"b":[]}]`, `{"k":{"a":{},"b":{},"c":{}}}`, `[[1],[2],{"a":[3]}]`,
			`{"a":[],"b":[],"c":1}`, `[1,"s",true,null,{"k":"v"}]`, `{"a":1,"b":"x","c":null,"d":[true,false]}`, `{ "a" : { } , "b" : { } }`, `[ { "a" : [ ] } , { } ]`,
			`{"a":{"b":{"c":{}}},"d":{}}`, `[[],[],[[],[]]]`, `{"x":-1.5e3,"y":"\u00e9\n","z":[0]}`, `[{},{},{}]`}
		e.rapidStage("tokensweep", "sweep", len(templates)+cfg.N(o.tokenSweepQ, o.tokenSweepQ*20), func(rt *rapid.T) {
			var doc []byte
			if k := rapid.IntRange(0, 2*len(templates)-1).Draw(rt, "template"); k < len(templates) {
				doc = []byte(templates[k])
			} else {
				doc = gen.Doc(rt, gen.AnyProfile(rt))
				if len(doc) > 160 {
					doc = gen.Doc(rt, gen.Tiny)
				}
			}
			var ferr error
			var bad []byte
			gen.TokenSweep(doc, func(b []byte) bool {
				if err := call("tokensweep", b); err != nil {
					ferr, bad = err, b
					return false
				}
				return true
			})
			if ferr != nil {
				failRapid(rt, r, caseOf(cfg.Prop, "tokensweep", bad, ferr), ferr)
			}
		})
	}

	// 2b+. amplification: a small element repeated more than 10 000 (thorough: 70 000) times in
	// one array or object. Whatever a scanner gets slightly wrong once per element - a counter
	// that leaks, a level that is not popped - reaches any 16-bit or depth-limit-sized bound.
	if o.amplify && e.enumStage("amplify", "6 element templates x every single-gap whitespace variant (3 whitespace kinds) and the all-gaps variant x {array, object} of 10050 (thorough also 40000, 70000) repetitions", true) {
		templates := [][]string{
			{"{", `"k"`, ":", `"v"`, "}"},
			{"{", `"k"`, ":", "[", "1", "]", "}"},
			{"[", "{", `"a"`, ":", "1", "}", "]"},
			{"{", `"a"`, ":", "{", `"b"`, ":", "[", "]", "}", "}"},
			{"[", `"s"`, ",", "[", "2", "]", "]"},
			{"[", "[", "]", ",", "{", "}", ",", `"x\n"`, "]"},
		}
		reps := []int{10050}
		if cfg.Thorough() {
			reps = append(reps, 40000, 70000)
		}
		idx := 0
	amp:
		for _, tpl := range templates {
			for gap := 0; gap <= len(tpl)-1; gap++ { // gap == len(tpl)-1: whitespace in every gap
				for _, ws := range []string{" ", "\n", "\t "} {
					idx++
					if !cfg.Mine(idx) {
						continue
					}
					var el []byte
					for ti, tok := range tpl {
						el = append(el, tok...)
						if ti+1 < len(tpl) && (ti == gap || gap == len(tpl)-1) {
							el = append(el, ws...)
						}
					}
					for _, n := range reps {
						for _, obj := range []bool{false, true} {
							b := make([]byte, 0, n*(len(el)+5)+2)
							if obj {
								b = append(b, '{')
							} else {
								b = append(b, '[')
							}
							for i := 0; i < n; i++ {
								if i > 0 {
									b = append(b, ',')
								}
								if obj {
									b = append(b, `"m":`...)
								}
								b = append(b, el...)
							}
							if obj {
								b = append(b, '}')
							} else {
								b = append(b, ']')
							}
							if err := call("amplify", b); err != nil {
								report("amplify", b, err)
								break amp
							}
						}
					}
				}
			}
		}
	}

	// 2b'. number shapes: every combination of integer / fraction / exponent digit counts from
	// the grids above (a part of a number is scanned by its own loop or helper, and what
	// follows a long part is decided after it)
	if o.numShapes > 0 && e.enumStage("numshapes", fmt.Sprintf("number tokens with %d integer x %d fraction x %d exponent digit counts (up to 4097 / 4097 / 129 digits) x sign, digit and exponent-spelling variants x %d contexts", len(numShapeLens), len(numShapeLens)+1, len(numShapeExpLens), o.numShapes), true) {
		ctxs := [][2]string{{"", ""}, {"[", "]"}, {`{"k":`, `,"z":0}`}, {` [1, `, ` , 2] `}}[:o.numShapes]
		buf := make([]byte, 0, 9000)
		idx := 0
	shapes:
		for _, li := range numShapeLens {
			for fi := -1; fi < len(numShapeLens); fi++ {
				lf := 0
				if fi >= 0 {
					lf = numShapeLens[fi]
				}
				for _, le := range numShapeExpLens {
					idx++
					if !cfg.Mine(idx) {
						continue
					}
					for ci, cx := range ctxs {
						buf = append(buf[:0], cx[0]...)
						buf = numShape(buf, li, lf, le, idx+ci*5)
						buf = append(buf, cx[1]...)
						if err := call("numshapes", buf); err != nil {
							report("numshapes", buf, err)
							break shapes
						}
					}
				}
			}
		}
	}

	// 2c. chunk boundaries: long well-formed documents (70 KB) are corrupted / truncated at
	// positions round 2^k (k = 6..16), where chunked or block-wise scanners change regime
	if o.boundaries {
		bq := o.boundaryQ
		if bq == 0 {
			bq = 4
		}
		e.rapidStage("boundaries", "sweep", cfg.N(bq, 40*bq), func(rt *rapid.T) {
			p := gen.AnyProfile(rt)
			doc := []byte{'['}
			for len(doc) < 70000 {
				if len(doc) > 1 {
					doc = append(doc, ',')
				}
				switch rapid.IntRange(0, 3).Draw(rt, "elem") {
				case 0:
					doc = gen.Val(rt, doc, p, 3)
				case 1:
					doc = gen.Str(rt, doc, 30)
				case 2:
					doc = gen.Num(rt, doc)
				default:
					doc = append(doc, `{"k":[1,"two\n",{"three":[]}]}`...)
				}
			}
			doc = append(doc, ']')
			if err := call("boundary.base", doc); err != nil {
				failRapid(rt, r, caseOf(cfg.Prop, "boundary", doc, err), err)
			}
			hostile := []byte("\"\\\x1f\x00,]}[{e.:9 \n\xff")
			m := make([]byte, len(doc))
			for k := 6; k <= 16; k++ {
				for d := -2; d <= 2; d++ {
					pos := 1<<uint(k) + d
					if pos >= len(doc) {
						continue
					}
					if err := call("boundary.trunc", doc[:pos]); err != nil {
						failRapid(rt, r, caseOf(cfg.Prop, "boundary", doc[:pos], err), err)
					}
					for _, h := range hostile {
						copy(m, doc)
						m[pos] = h
						if err := call("boundary.subst", m); err != nil {
							failRapid(rt, r, caseOf(cfg.Prop, "boundary", m, err), err)
						}
					}
				}
			}
			r.Label("boundary.base")
		})
	}

	// 3. position x byte sweeps around grammar-generated documents
	if n := cfg.N(o.sweepQ, o.sweepT); o.sweepQ > 0 {
		maxLen := o.sweepMaxLen
		if maxLen == 0 {
			maxLen = 96
		}
		e.rapidStage("sweep", "sweep", n, func(rt *rapid.T) {
			p := gen.AnyProfile(rt)
			doc := gen.DocTrail(rt, p)
			if len(doc) > maxLen {
				doc = gen.DocTrail(rt, gen.Tiny)
				if len(doc) > maxLen {
					doc = doc[:maxLen]
				}
			}
			r.Label("sweep.base")
			var ferr error
			var bad []byte
			gen.Sweep(doc, func(b []byte) bool {
				if err := call("sweep", b); err != nil {
					ferr, bad = err, keepSpare(b)
					return false
				}
				return true
			})
			if ferr != nil {
				failRapid(rt, r, caseOf(cfg.Prop, "sweep", bad, ferr), ferr)
			}
		})
	}

	// 4. depth shapes on both sides of the limit, every mixture
	if n := cfg.N(o.nestQ, o.nestT); o.nestQ > 0 {
		depths := o.nestDepths
		if depths == nil {
			depths = defaultNestDepths
		}
		e.rapidStage("nest", "rapid", n, func(rt *rapid.T) {
			spec := gen.DrawNest(rt, depths)
			doc := spec.Build()
			r.Label(fmt.Sprintf("nest.depth=%d", spec.Depth))
			if err := call("nest", doc); err != nil {
				failRapid(rt, r, caseOf(cfg.Prop, "nest", doc, err), err)
			}
		})
	}

	// 4a. pretty-printed depth shapes, intact or with one indentation byte replaced
	if n := cfg.N(o.indentQ, o.indentT); o.indentQ > 0 {
		e.rapidStage("indented", "rapid", n, func(rt *rapid.T) {
			spec := gen.DrawIndented(rt)
			doc := spec.Build()
			r.Label(fmt.Sprintf("indented.cap=%d", spec.IndentCap))
			if rapid.IntRange(0, 2).Draw(rt, "corrupt?") == 0 {
				var runs []int // starts of lines
				for i, c := range doc {
					if c == '\n' && i+1 < len(doc) && (doc[i+1] == ' ' || doc[i+1] == '\t') {
						runs = append(runs, i+1)
					}
				}
				if len(runs) > 0 {
					at := runs[rapid.IntRange(0, len(runs)-1).Draw(rt, "line")]
					end := at
					for end < len(doc) && (doc[end] == ' ' || doc[end] == '\t') {
						end++
					}
					at += rapid.IntRange(0, end-at-1).Draw(rt, "col")
					doc[at] = "x1,]\"\x00\xa0\x0b"[rapid.IntRange(0, 7).Draw(rt, "garbage")]
					r.Label("indented.corrupted")
				}
			}
			if err := call("indented", doc); err != nil {
				failRapid(rt, r, caseOf(cfg.Prop, "indented", doc, err), err)
			}
		})
	}

	// 4b. every fcall site at the depth limit: all opener contexts (first/later member of an
	// array/object, either opener kind) x depths 9999..10001 x bottoms, fully closed
	if o.nestQ > 0 && !o.noDepthSites && e.enumStage("depthsites", "7 array/object mixtures x sibling/no sibling x depths {9999,10000,10001} x 6 bottoms x {closed, unclosed, closed with a number or string behind the deep member}", true) {
		idx := 0
	sites:
		for _, pat := range gen.NestPatterns {
			for _, sib := range []bool{false, true} {
				for _, d := range []int{9999, 10000, 10001} {
					for _, bottom := range []string{"", "1", "[]", "{}", `{"a":[]}`, `[1,{}]`} {
						for _, cl := range []int{d, 0} {
							idx++
							if !cfg.Mine(idx) {
								continue
							}
							if o.depthSitesLite && !cfg.Thorough() && (len(pat) > 2 || sib || d == 9999 || len(bottom) > 1 || cl == 0) {
								continue
							}
							doc := gen.NestSpec{Depth: d, Pattern: pat, Close: cl, Bottom: bottom, Sibling: sib}.Build()
							if err := call("depthsite", doc); err != nil {
								report("depthsite", doc, err)
								break sites
							}
							if cl == d && len(bottom) <= 1 {
								// the same shape with a number behind the deep member in the two outermost
								// containers (state set at the limit must survive what follows)
								after := []string{"1.5", "2e3", "7", `"s"`}[idx%4]
								doc = gen.NestSpec{Depth: d, Pattern: pat, Close: cl, Bottom: bottom, Sibling: sib, After: after, AfterLevels: 2}.Build()
								if err := call("depthsite", doc); err != nil {
									report("depthsite", doc, err)
									break sites
								}
							}
						}
					}
				}
			}
		}
	}

	// 5. mutation chains
	if n := cfg.N(o.mutQ, o.mutT); o.mutQ > 0 {
		e.rapidStage("mutate", "rapid", n, func(rt *rapid.T) {
			p := gen.AnyProfile(rt)
			doc := gen.DocTrail(rt, p)
			k := rapid.IntRange(0, 3).Draw(rt, "nmut")
			for i := 0; i < k; i++ {
				doc = gen.Mutate(rt, doc)
			}
			r.Label(fmt.Sprintf("mutate.n=%d", k))
			if err := call("mutate", doc); err != nil {
				failRapid(rt, r, caseOf(cfg.Prop, "mutate", doc, err), err)
			}
		})
	}
	// 2b3. streams: the input is a buffer that goes on after the first value - further records,
	// a record that has only partly arrived, stray closers. Whatever looks at the whole buffer
	// (bracket counts, "can this ever close", a search for the last closer) instead of the first
	// value gets these wrong; sizes on both sides of 4 KiB and 64 KiB, with and without strings
	if o.streams && e.enumStage("streams", "12 first values (string-free numeric arrays / nested arrays / empty containers / objects / scalars) x 3 sizes (small, > 4 KiB, > 64 KiB) x 22 tails (unmatched openers, partial next records, stray closers, 4000 openers, quotes)", true) {
		firsts := [][3]string{ // {opening, repeated member, closing}
			{"[1", ",2", "]"}, {"[[1]", ",[2,[3]]", "]"}, {"[", "", "]"}, {"{", "", "}"}, {"[-1.5e3", " , 0.25", " ]"},
			{`{"a":1`, `,"b":[2]`, "}"}, {`["x"`, `,"y"`, "]"}, {"[{}", ",{}", "]"}, {"[[]", ",[[[]]]", "]"}, {"12", "", ""}, {"true", "", ""}, {`[{"k":{}}`, `,{"k":[{}]}`, "]"}}
		opens := strings.Repeat("[", 4000)
		tails := []string{"", " ", " [", "\n[1,2", "{", "]]]", "[[[[", "}", "\n[1,2,3]\n[4,", `"`, `"abc`, ` {"a":`, opens, " " + opens + "1", ",", ":", "\x00", "\n{\n", " [[1],[2", "]", "}}}}", ` {"a":[`}
		idx := 0
	streams:
		for _, fv := range firsts {
			for _, size := range []int{0, 4200, 66000} {
				idx++
				if !cfg.Mine(idx) {
					continue
				}
				if fv[1] == "" && size > 0 {
					continue
				}
				first := []byte(fv[0])
				for len(first) < size {
					first = append(first, fv[1]...)
				}
				if size == 0 && fv[1] != "" {
					first = append(first, fv[1]...)
				}
				first = append(first, fv[2]...)
				for _, tail := range tails {
					b := append(append(make([]byte, 0, len(first)+len(tail)), first...), tail...)
					if err := call("streams", b); err != nil {
						report("streams", b, err)
						break streams
					}
				}
			}
		}
	}

	// 2b''. counts: every place where a scanner counts something (whitespace bytes, digits of
	// each part of a number, string bytes, escapes, key bytes, members) with counts on both sides
	// of 2^8, 2^9, 2^12, 2^16 and (countsBig) 2^20: a counter narrowed to 8 or 16 bits wraps, a
	// "hardening" limit or a size-class switch sits at such a value
	if o.counts > 0 && e.enumStage("counts", fmt.Sprintf("%d count sites (whitespace at 8 grammar positions, integer / fraction / exponent digits, plain / escaped / multi-byte string bytes, key bytes, array and object members, trailing whitespace) x counts {255..257, 511..513, 4095..4097, 65535..65537%s}", len(countKinds), map[bool]string{true: ", 2^20-1..2^20+1, 3*2^20 (thorough also 2^24+1)", false: ""}[o.counts > 1]), true) {
		ns := append([]int(nil), countNs...)
		if o.counts > 1 {
			ns = append(ns, countNsBig...)
			if cfg.Thorough() {
				ns = append(ns, 1<<24+1)
			}
		}
		idx := 0
	counts:
		for _, n := range ns {
			for _, ck := range countKinds {
				idx++
				if !cfg.Mine(idx) {
					continue
				}
				if n > 1<<20+1 && ck.heavy {
					continue
				}
				b := ck.build(n)
				if err := call("counts."+ck.name, b); err != nil {
					report("counts."+ck.name, b, err)
					break counts
				}
			}
		}
	}

}

// caseErr lets an inputFn attach a richer concrete case (e.g. with a buffer history) to
// the error it returns.
type caseErr struct {
	c   *core.Case
	err error
}

func (e *caseErr) Error() string { return e.err.Error() }
func (e *caseErr) Unwrap() error { return e.err }

func caseOf(prop, kind string, in []byte, err error) *core.Case {
	if ce, ok := err.(*caseErr); ok {
		return ce.c
	}
	c := &core.Case{Prop: prop, Kind: kind, In: append([]byte(nil), in...)}
	// what lies behind the slice within its capacity is part of the case: a callee that reads
	// past len(data) sees it (inputs are often windows of larger buffers)
	if spare := cap(in) - len(in); spare > 0 {
		if spare > 32 {
			spare = 32
		}
		c.Bufs = []core.HexBytes{append([]byte(nil), in[len(in):len(in)+spare]...)}
	}
	return c
}

// keepSpare copies in together with up to 32 bytes that lie behind it within its capacity, so
// that a case recorded from the copy (caseOf) still describes the window the library saw.
func keepSpare(in []byte) []byte {
	spare := cap(in) - len(in)
	if spare > 32 {
		spare = 32
	}
	full := append(make([]byte, 0, len(in)+spare), in[:len(in)+spare]...)
	return full[:len(in)]
}

// inputOf rebuilds the input slice of a byte-level case, including the bytes that lay behind
// it within its capacity when the case was recorded.
func inputOf(c *core.Case) []byte {
	if len(c.Bufs) > 0 && len(c.Bufs[0]) > 0 {
		full := append(append(make([]byte, 0, len(c.In)+len(c.Bufs[0])), c.In...), c.Bufs[0]...)
		return full[:len(c.In)]
	}
	out := make([]byte, len(c.In))
	copy(out, c.In)
	return out
}
