package props

import (
	"testing"

	"verifharness/core"
	"verifharness/gen"

	"pgregory.net/rapid"
)

func TestC18(t *testing.T) {
	runProp(t, "C18", func(e *env) {
		r := e.r
		e.rapidStage("rounds", "rapid", e.cfg.N(1200, 60000), func(rt *rapid.T) {
			nd := rapid.IntRange(4, 24).Draw(rt, "ndocs")
			c := &core.Case{Prop: "C18", Kind: "workload"}
			for i := 0; i < nd; i++ {
				var b []byte
				switch rapid.IntRange(0, 5).Draw(rt, "dockind") {
				case 0:
					b = gen.Str(rt, nil, 8)
				case 1:
					b = gen.Num(rt, nil)
				case 2:
					b = gen.StrContent(rt, 6)
				default:
					b = gen.DocTrail(rt, gen.AnyProfile(rt))
					if rapid.IntRange(0, 4).Draw(rt, "mut?") == 0 {
						b = gen.Mutate(rt, b)
					}
				}
				c.Steps = append(c.Steps, core.Case{Kind: "input", In: b})
			}
			ng := []int{8, 8, 16, 32}[rapid.IntRange(0, 3).Draw(rt, "goroutines")]
			procs := []int{2, 4, 16}[rapid.IntRange(0, 2).Draw(rt, "gomaxprocs")]
			stride := []int{1, 7, 11}[rapid.IntRange(0, 2).Draw(rt, "stride")]
			nops := rapid.IntRange(40, 160).Draw(rt, "nops")
			c.Ints = []int64{int64(ng), int64(procs), int64(stride)}
			for i := 0; i < nops; i++ {
				c.Ints = append(c.Ints, int64(rapid.IntRange(0, c18NumOps-1).Draw(rt, "fn")), int64(rapid.IntRange(0, nd-1).Draw(rt, "doc")))
			}
			r.Persist(c) // if the race detector kills or flags the process, this is the case
			overlap, err := c18Round(c)
			key := core.HashInts(core.Hash(c.Steps[0].In, c.Steps[nd-1].In), c.Ints...)
			r.Eval(key, overlap)
			r.LabelN("operations", int64(nops*ng))
			if overlap {
				r.Label("round.overlap-observed")
			}
			if overlap && r.WantSample(key) {
				r.Sample(map[string]interface{}{"goroutines": ng, "gomaxprocs": procs, "ops_per_goroutine": nops, "shared_inputs": nd, "first_input": core.Preview(c.Steps[0].In)})
			}
			if err != nil {
				failRapid(rt, r, c, err)
			}
		})
	})
}
