package props

import (
	"testing"

	"verifharness/core"
	"verifharness/gen"

	"pgregory.net/rapid"
)

func TestC18(t *testing.T) {
	runProp(t, "C18", func(e *env) {
		r := e.r
		e.rapidStage("rounds", "rapid", e.cfg.N(560, 40000), func(rt *rapid.T) {
			nd := rapid.IntRange(4, 24).Draw(rt, "ndocs")
			c := &core.Case{Prop: "C18", Kind: "workload"}
			deep := map[int]bool{}
			longStr := map[int]bool{}
			midDeep := map[int]bool{}
			big := map[int]bool{}
			prefixOf := map[int]bool{}
			longNum := map[int]bool{}
			for i := 0; i < nd; i++ {
				var b []byte
				dk := rapid.IntRange(0, 7).Draw(rt, "dockind")
				if i == 1 && len(deep) == 0 && rapid.IntRange(0, 4).Draw(rt, "middeepround?") == 0 {
					dk = 8 // one mid-depth input in about one round out of five
				}
				if i == 2 && len(big) == 0 && nd > 4 && rapid.IntRange(0, 3).Draw(rt, "biground?") == 0 {
					dk = 9 // a large document and, next, a shorter view of it from the same first byte
				}
				if i > 0 && big[i-1] && !prefixOf[i-1] {
					base := c.Steps[i-1].In
					k := []int{len(base) - 1, len(base) / 2, len(base) - 2, 33000}[rapid.IntRange(0, 3).Draw(rt, "cut")]
					if k > len(base) {
						k = len(base) - 1
					}
					c.Steps = append(c.Steps, core.Case{Kind: "prefix", Ints: []int64{int64(i - 1), int64(k)}})
					big[i], prefixOf[i] = true, true
					continue
				}
				if i == 3 && rapid.IntRange(0, 1).Draw(rt, "longnumround?") == 0 {
					dk = 10 // number tokens beyond every fast path and every machine type, in every other round
				}
				if i == 0 && rapid.IntRange(0, 5).Draw(rt, "deepround?") == 0 {
					dk = 99 // one depth-limit input in about one round out of six
				}
				switch dk {
				case 99:
					// error exits matter for pooled / cached state: nesting at and beyond the limit
					// (only the skip and traversal operations are run on these)
					d := []int{9999, 10000, 10001, 10002, 12000}[rapid.IntRange(0, 4).Draw(rt, "depth")]
					cl := 0
					if rapid.Bool().Draw(rt, "closed") {
						cl = d
					}
					b = gen.NestSpec{Depth: d, Pattern: gen.NestPatterns[rapid.IntRange(0, len(gen.NestPatterns)-1).Draw(rt, "pat")], Close: cl, Bottom: "1"}.Build()
					deep[i] = true
				case 10:
					// integer / float tokens of 19..1000 digits (error paths of the integer readers,
					// slow paths of the float parser), distinct text per input, with more input behind
					n := []int{19, 20, 21, 25, 31, 32, 33, 34, 35, 36, 40, 64, 65, 130, 300, 801, 1000}[rapid.IntRange(0, 16).Draw(rt, "ndigits")]
					b = append(b, []string{"", "-", " ", "\n-"}[rapid.IntRange(0, 3).Draw(rt, "sign")]...)
					for k := 0; k < n; k++ {
						b = append(b, byte('1'+(k*7+i)%9))
					}
					b = append(b, []string{"", "", ".5", "e3", "e-400", ".25e+7"}[rapid.IntRange(0, 5).Draw(rt, "numtail")]...)
					b = append(b, []string{"", ",", " ,123456789012345678901234567890123456]", "]", " \n"}[rapid.IntRange(0, 4).Draw(rt, "after")]...)
					longNum[i] = true
				case 6:
					b = gen.NestSpec{Depth: rapid.IntRange(2, 40).Draw(rt, "depth"), Pattern: gen.NestPatterns[rapid.IntRange(0, len(gen.NestPatterns)-1).Draw(rt, "pat")],
						Close: rapid.IntRange(0, 40).Draw(rt, "close"), Bottom: []string{"1", `"x"`, "", "]"}[rapid.IntRange(0, 3).Draw(rt, "bottom")]}.Build()
				case 9:
					n := []int{33000, 40000, 70000}[rapid.IntRange(0, 2).Draw(rt, "bigsize")]
					b = append(b, '[')
					for len(b) < n {
						b = append(b, `{"id":123456,"tags":["a","b"]},`...)
					}
					b = append(b, `null]`...)
					big[i] = true
				case 8:
					// thousands of levels, well below the limit: the recursive Buffer-less walk has
					// that many traversals in progress at once on every goroutine
					d := []int{1300, 2600, 3400, 6000}[rapid.IntRange(0, 3).Draw(rt, "middepth")]
					b = gen.NestSpec{Depth: d, Pattern: gen.NestPatterns[rapid.IntRange(0, len(gen.NestPatterns)-1).Draw(rt, "pat")], Close: d, Bottom: "1", Sibling: rapid.Bool().Draw(rt, "sib")}.Build()
					midDeep[i] = true
				case 7:
					// a long string with escapes, different text in every input (scratch space of
					// one caller showing up in another caller's result is then visible); over
					// 1 KiB, 4 KiB and 16 KiB so that size-gated reuse of working buffers is reached
					n := []int{300, 1100, 1100, 4200, 17000}[rapid.IntRange(0, 4).Draw(rt, "strlen")]
					unit := []string{`\n`, `\u00e9`, `\"`, `\ud83d\ude00`, `\\`}[rapid.IntRange(0, 4).Draw(rt, "unit")] + string(rune('a'+i%26)) + string(rune('A'+i%26))
					b = append(b, '"')
					for len(b) < n {
						b = append(b, unit...)
					}
					b = append(b, '"')
					longStr[i] = true
				case 0:
					b = gen.Str(rt, nil, 8)
				case 1:
					b = gen.Num(rt, nil)
				case 2:
					b = gen.StrContent(rt, 6)
				default:
					b = gen.DocTrail(rt, gen.AnyProfile(rt))
					if rapid.IntRange(0, 4).Draw(rt, "mut?") == 0 {
						b = gen.Mutate(rt, b)
					}
				}
				// records often start and end with whitespace (the byte behind a record is then
				// whitespace belonging to the next record)
				if rapid.IntRange(0, 2).Draw(rt, "wsframe") == 0 {
					b = append(append([]byte(" \n"), b...), ' ')
				}
				c.Steps = append(c.Steps, core.Case{Kind: "input", In: b})
			}
			ng := []int{8, 8, 16, 32}[rapid.IntRange(0, 3).Draw(rt, "goroutines")]
			procs := []int{2, 4, 16}[rapid.IntRange(0, 2).Draw(rt, "gomaxprocs")]
			stride := []int{1, 7, 11}[rapid.IntRange(0, 2).Draw(rt, "stride")]
			nops := rapid.IntRange(40, 160).Draw(rt, "nops")
			c.Ints = []int64{int64(ng), int64(procs), int64(stride)}
			skipFamily := []int{0, 1, 2, 8, 9, 30, 31, 32, 33, 34}
			deepOps := 0
			if (len(deep) > 0 || len(midDeep) > 0) && ng > 8 {
				ng = 8
				c.Ints[0] = 8
			}
			midOps := 0
			for i := 0; i < nops; i++ {
				fn := rapid.IntRange(0, c18NumOps-1).Draw(rt, "fn")
				doc := rapid.IntRange(0, nd-1).Draw(rt, "doc")
				if deep[doc] {
					if deepOps >= 6 && nd > 1 {
						doc = 1 + (doc+i)%(nd-1) // keep the round cheap: a handful of operations on the deep input
					} else {
						deepOps++
						fn = skipFamily[fn%len(skipFamily)]
						r.Label("op.on-depth-limit-input")
					}
				}
				if longNum[doc] {
					fn = []int{7, 16, 5, 7, 16, 20, 0, 1, 4, 16, fn, fn}[fn%12]
					r.Label("op.on-long-number-input")
				}
				if big[doc] {
					// validity and skipping only: the two views differ in exactly that
					fn = []int{0, 30, 1, 31, 0, 30, 2, 32, 0, 30}[fn%10]
					r.Label("op.on-large-shared-prefix-input")
				}
				if midDeep[doc] {
					if midOps >= 10 && nd > 2 {
						doc = 2 + (doc+i)%(nd-2)
					} else {
						// the walk and the skip family only (the generic decoders would build thousands
						// of nested containers per operation)
						midOps++
						fn = []int{35, 35, 1, 31, 35, 2, 0, 35, 30, 32}[fn%10]
						r.Label("op.on-mid-depth-input")
					}
				}
				if longStr[doc] && i%3 != 0 {
					// mostly the string readers, with and without a caller-owned working buffer
					fn = []int{6, 13, 21, 12, 13, 6, 3, 4, 21, 22}[fn%10]
					r.Label("op.string-reader-on-long-escaped-string")
				}
				c.Ints = append(c.Ints, int64(fn), int64(doc))
			}
			r.Persist(c) // if the race detector kills or flags the process, this is the case
			overlap, err := c18Round(c)
			key := core.HashInts(core.Hash(c.Steps[0].In, c.Steps[nd-1].In), c.Ints...)
			r.Eval(key, overlap)
			r.LabelN("operations", int64(nops*ng))
			if overlap {
				r.Label("round.overlap-observed")
			}
			if overlap && r.WantSample(key) {
				r.Sample(map[string]interface{}{"goroutines": ng, "gomaxprocs": procs, "ops_per_goroutine": nops, "shared_inputs": nd, "first_input": core.Preview(c.Steps[0].In)})
			}
			if err != nil {
				failRapid(rt, r, c, err)
			}
		})
	})
}
