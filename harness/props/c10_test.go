package props

import (
	"bytes"
	"fmt"
	"math"
	"math/big"
	"strings"
	"testing"

	"verifharness/core"
	"verifharness/gen"
	"verifharness/ref"

	"github.com/willabides/rjson"
	"pgregory.net/rapid"
)

func TestC10(t *testing.T) {
	runProp(t, "C10", func(e *env) {
		r := e.r
		used := primedBuffer()
		n := int64(0)
		// every entry point on one input; the buffer cycles nil / fresh / long-lived
		evalBytes := func(kind string, in []byte) error {
			n++
			cfg := n % 3
			buf := bufferConfig(cfg % 2)
			if cfg == 2 {
				buf = used
			}
			first := ref.SkipWS(in, 0)
			_, errPos := ref.SkipPos(in, 1<<30)
			nt := len(in) >= 2 && (errPos == 0 || errPos > first)
			key := core.Hash(in)
			r.Eval(key, nt)
			if nt && r.WantSample(key) {
				r.SampleInput(key, kind, in, "entry_points", len(c10Entries))
			}
			if err := c10Bytes(in, buf, -1); err != nil {
				fe := err.(*fnErr)
				c := &core.Case{Prop: "C10", Kind: kind, In: append([]byte(nil), in...), Ints: []int64{int64(fe.fn), cfg}}
				return &caseErr{c, err}
			}
			return nil
		}
		// 1. byte-level generators, nesting far beyond the limit in every mixture
		depths := []int{1, 3, 64, 9999, 10000, 10001, 20000, 100000}
		if e.cfg.Thorough() {
			depths = append(depths, 1000000)
		}
		e.feed(feedOpts{counts: 1, streams: true, shortlexQ: 3, shortlexT: 5, sweepQ: 100, sweepT: 3000, sweepMaxLen: 64, nestQ: 60, nestT: 600, indentQ: 16, indentT: 300, numShapes: 2, strRuns: true, tokenSweepQ: 20, templateSweep: true, amplify: true, nestDepths: depths,
			mutQ: 30000, mutT: 1000000, nextByte: false, alignment: true, noDepthSites: true}, evalBytes)
		// 1b. number literals on the rarest conversion paths (exact ties incl. 2^-1075, the
		// overflow threshold, 800-digit mantissas): a panic deep in the float fallback is a
		// totality violation whatever the value
		if e.enumStage("float-thresholds", "exact halfway literals and their neighbours for 16 threshold floats incl. 2^-1075 and the overflow tie, wrapped in 3 contexts", true) {
			var lits []string
			for _, x := range []float64{math.MaxFloat64, math.SmallestNonzeroFloat64, 2 * math.SmallestNonzeroFloat64, 2.2250738585072014e-308, 2.225073858507201e-308, 1, 9007199254740992, 1e22, 1e23, 5e-324, 3 * math.SmallestNonzeroFloat64, 1.7976931348623155e308, 8.41e21, 0.1, 1e-310, 6e-320} {
				lits = append(lits, halfwayVariants(midpointDecimal(x))...)
			}
			half := new(big.Float).SetPrec(bigPrec).SetFloat64(math.SmallestNonzeroFloat64)
			half.Quo(half, big.NewFloat(2))
			hs := trimMantZeros(half.Text('e', 1100))
			lits = append(lits, halfwayVariants(hs)...)
			if f, ok := toFixedAny(hs); ok {
				lits = append(lits, f, f+"0", "-"+f)
			}
			for i, lit := range lits {
				if !e.cfg.Mine(i) {
					continue
				}
				for _, doc := range []string{lit, "-" + lit, "[" + lit + "]", `{"k":` + lit + `}`} {
					b := []byte(doc)
					r.Begin("float-threshold", b)
					if err := evalBytes("float-threshold", b); err != nil {
						r.Fail(caseOf("C10", "float-threshold", b, err), err)
						break
					}
				}
				if r.Failed() {
					break
				}
			}
		}
		// 1c. the one exported function whose argument is not a byte string
		if e.enumStage("token-types", "TokenType(v).String() and fmt formatting for all 256 values of the exported uint8 type", true) {
			for v := 0; v < 256; v++ {
				if !e.cfg.Mine(v) {
					continue
				}
				c := &core.Case{Prop: "C10", Kind: "tokentype", Ints: []int64{int64(v)}}
				r.BeginCase(c)
				r.Eval(core.HashInts(0x7074, int64(v)), v > 11)
				r.Label("tokentype")
				if err := c10TokenType(uint8(v)); err != nil {
					r.Fail(c, err)
					break
				}
			}
		}
		// 2. free bytes
		e.rapidStage("freebytes", "rapid", e.cfg.N(20000, 1500000), func(rt *rapid.T) {
			b := rapid.SliceOfN(rapid.Byte(), 0, 48).Draw(rt, "bytes")
			r.Begin("freebytes", b)
			if err := evalBytes("freebytes", b); err != nil {
				failRapid(rt, r, caseOf("C10", "freebytes", b, err), err)
			}
		})
		// 3. megabyte runs of a single token
		if e.enumStage("big", "megabyte single tokens: plain/escaped/\\u strings, digit runs, whitespace runs, flat arrays/objects of one literal, long keys; complete and truncated", true) {
			size := e.cfg.Pick(1<<20, 4<<20)
			bigs := map[string][]byte{
				"string.plain":   []byte(`"` + strings.Repeat("a", size) + `"`),
				"string.escapes": []byte(`"` + strings.Repeat(`\n`, size/2) + `"`),
				"string.unicode": []byte(`"` + strings.Repeat(`é`, size/6) + `"`),
				"string.pairs":   []byte(`"` + strings.Repeat(`😀`, size/12) + `"`),
				"string.lone":    []byte(`"` + strings.Repeat(`\ud83d`, size/6) + `"`),
				"string.raw8bit": []byte(`"` + strings.Repeat("\xff\xfe", size/2) + `"`),
				"digits":         []byte(strings.Repeat("9", size)),
				"fraction":       []byte("0." + strings.Repeat("0", size) + "1"),
				"exponent":       []byte("1e" + strings.Repeat("9", size)),
				"whitespace":     []byte(strings.Repeat(" \n", size/2) + "1"),
				"array.nulls":    []byte("[" + strings.Repeat("null,", size/5) + "null]"),
				"array.strings":  []byte("[" + strings.Repeat(`"\n",`, size/5) + `""]`),
				"object.flat":    []byte("{" + strings.Repeat(`"k":1,`, size/6) + `"k":2}`),
				"object.longkey": []byte(`{"` + strings.Repeat(`k\t`, size/3) + `":1}`),
				"brackets.open":  bytes.Repeat([]byte("["), size),
				"brackets.mixed": bytes.Repeat([]byte(`{"a":[`), size/6),
				"brackets.close": bytes.Repeat([]byte("]"), size),
				"quotes":         bytes.Repeat([]byte(`"`), size),
				"backslashes":    []byte(`"` + strings.Repeat(`\`, size)),
			}
			names := make([]string, 0, len(bigs))
			for k := range bigs {
				names = append(names, k)
			}
			sortStrings(names)
		big:
			for ni, name := range names {
				if !e.cfg.Mine(ni) {
					continue
				}
				doc := bigs[name]
				for _, cut := range []int{len(doc), len(doc) - 1, len(doc) / 2} {
					c := &core.Case{Prop: "C10", Kind: "big." + name, In: doc[:cut]}
					r.Persist(c)
					r.Label("big." + name)
					if err := evalBytes("big."+name, doc[:cut]); err != nil {
						r.Fail(caseOf("C10", "big."+name, doc[:cut], err), err)
						break big
					}
				}
			}
		}
		// 4. hostile handler offsets: grid over member kinds x pool offsets x position
		evalHandler := func(kind string, in []byte, k byte, codes []int64, mode int64) error {
			n++
			cfg := n % 3
			buf := bufferConfig(cfg % 2)
			if cfg == 2 {
				buf = used
			}
			nt, err := c10Handler(in, k, codes, mode, buf)
			key := core.HashInts(core.Hash(in), append([]int64{int64(k), mode}, codes...)...)
			r.Eval(key, nt)
			if nt && r.WantSample(key) {
				r.SampleInput(key, kind, in, "traversal", string(k), "offset_codes", codes, "reentrant", mode&1 == 1, "error_with_last_offset", mode>>1)
			}
			if err != nil {
				if cfg == 2 { // pin to a reproducible buffer configuration if possible
					for _, alt := range []int64{0, 2} {
						if _, e2 := c10Handler(in, k, codes, mode, bufferConfig(alt)); e2 != nil {
							cfg, err = alt, e2
							break
						}
					}
				}
				ints := append([]int64{int64(k), mode, cfg}, codes...)
				return &caseErr{&core.Case{Prop: "C10", Kind: "handler", In: append([]byte(nil), in...), Ints: ints}, err}
			}
			return nil
		}
		if e.enumStage("handler-grid", "22 container documents x member position 0..3 x 28 pool offsets (MinInt..MaxInt, exact+-1, mid-token, len, len+1, ...) x {plain, re-entrant, with a standard-library sentinel error (io.EOF, context.Canceled, ...) alongside the last offset}", true) {
			docs := []string{`["abc"]`, `[1, "abc"]`, `[[1,2],"x"]`, `[{"a":1}]`, `[1,2,3]`, `["a","b","c"]`, `[[],[],[]]`, `[{},{}]`, `["\né",[["x"]]]`, ` [ "a" , [ 1 ] , { "b" : 2 } ] `,
				`{"a":"abc"}`, `{"a":1,"b":"abc"}`, `{"a":[1,2],"b":"x"}`, `{"a":{"b":1}}`, `{"a":1,"b":2}`, `{"a":"x","b":"y","c":"z"}`, `{"a":[],"b":{}}`, ` { "a" : "x" , "b" : [ 1 ] } `,
				`["abc"`, `{"a":"abc"`, `[[[[["x"]]]]]`, `{"k":{"k":{"k":"v"}}}`}
		hg:
			for di, d := range docs {
				if !e.cfg.Mine(di) {
					continue
				}
				in := []byte(d)
				for pos := 0; pos < 4; pos++ {
					for code := int64(0); code < hostilePoolSize; code++ {
						for _, re := range []int64{0, 1, 2 + 2*(code%int64(len(wellKnownErrs))), 2 + 2*((code+pos64(pos))%int64(len(wellKnownErrs))) + 1} {
							codes := make([]int64, pos+1)
							for i := range codes {
								codes[i] = 7 // exact for earlier members
							}
							codes[pos] = code
							k := in[ref.SkipWS(in, 0)]
							r.Begin("handler-grid", in)
							if err := evalHandler("handler-grid", in, k, codes, re); err != nil {
								r.Fail(caseOf("C10", "handler", in, err), err)
								break hg
							}
						}
					}
				}
			}
		}
		// 5. rapid containers x drawn hostile vectors (pool selectors and free integers)
		e.rapidStage("handler-rapid", "rapid", e.cfg.N(40000, 3000000), func(rt *rapid.T) {
			p := gen.AnyProfile(rt)
			kind := byte("[{"[rapid.IntRange(0, 1).Draw(rt, "kind")])
			b := gen.Container(rt, nil, p, kind, 1+rapid.IntRange(0, p.MaxDepth).Draw(rt, "depth"))
			b = append(b, gen.Trailers[rapid.IntRange(0, len(gen.Trailers)-1).Draw(rt, "trail")]...)
			if rapid.IntRange(0, 3).Draw(rt, "mut?") == 0 {
				b = gen.Mutate(rt, b)
			}
			nc := rapid.IntRange(0, 8).Draw(rt, "ncodes")
			codes := make([]int64, nc)
			for i := range codes {
				if rapid.IntRange(0, 3).Draw(rt, "free?") == 0 {
					codes[i] = rapid.Int64().Draw(rt, "freeoffset")
				} else if rapid.IntRange(0, 2).Draw(rt, "small?") == 0 {
					codes[i] = int64(rapid.IntRange(-3, len(b)+3).Draw(rt, "smalloffset"))
					if codes[i] >= 0 && codes[i] < hostilePoolSize {
						codes[i] = int64(rapid.IntRange(0, hostilePoolSize-1).Draw(rt, "code"))
					}
				} else {
					codes[i] = int64(rapid.IntRange(0, hostilePoolSize-1).Draw(rt, "code"))
				}
			}
			re := b2i(rapid.IntRange(0, 3).Draw(rt, "reentrant") == 0)
			if nc > 0 && rapid.IntRange(0, 2).Draw(rt, "err?") == 0 {
				re += 2 * int64(1+rapid.IntRange(0, len(wellKnownErrs)-1).Draw(rt, "errsel"))
			}
			r.Begin("handler-rapid", b)
			if err := evalHandler("handler-rapid", b, kind, codes, re); err != nil {
				failRapid(rt, r, caseOf("C10", "handler", b, err), err)
			}
		})
		e.r.Extra("entry_points", len(c10Entries))
	})
}

func pos64(p int) int64 { return int64(p) }

func sortStrings(s []string) {
	for i := 1; i < len(s); i++ {
		for j := i; j > 0 && s[j] < s[j-1]; j-- {
			s[j], s[j-1] = s[j-1], s[j]
		}
	}
}

var _ = fmt.Sprint
var _ = rjson.Valid
