package props

import (
	"fmt"
	"strings"
	"testing"

	"verifharness/core"
	"verifharness/gen"

	"pgregory.net/rapid"
)

// c15Doc draws a document for one read: success, malformed, wrong type, depth-limit exit,
// large-then-small.
func c15Doc(rt *rapid.T, want byte) []byte {
	switch rapid.IntRange(0, 15).Draw(rt, "docclass") {
	case 0: // depth-limit exits and deep successes
		d := []int{60, 200, 60, 30, 100, 60, 200, 30, 9999, 10000, 10001, 10000}[rapid.IntRange(0, 11).Draw(rt, "depth")]
		return gen.NestSpec{Depth: d, Pattern: gen.NestPatterns[rapid.IntRange(0, len(gen.NestPatterns)-1).Draw(rt, "pat")], Close: d, Bottom: []string{"1", `"\n"`, ""}[rapid.IntRange(0, 2).Draw(rt, "bottom")]}.Build()
	case 1, 2: // large containers (size hints)
		n := []int{9, 33, 9, 31, 32, 33, 64, 65, 200, 255, 256, 257, 9, 16, 17, 1200}[rapid.IntRange(0, 15).Draw(rt, "n")]
		var sb strings.Builder
		obj := rapid.Bool().Draw(rt, "obj")
		inner := rapid.IntRange(0, 2).Draw(rt, "inner")
		if obj {
			sb.WriteByte('{')
		} else {
			sb.WriteByte('[')
		}
		for i := 0; i < n; i++ {
			if i > 0 {
				sb.WriteByte(',')
			}
			if obj {
				fmt.Fprintf(&sb, `"k%d":`, i)
			}
			switch inner {
			case 0:
				fmt.Fprintf(&sb, "%d", i)
			case 1:
				fmt.Fprintf(&sb, `{"a":%d,"b\n":"s%d"}`, i, i)
			default:
				fmt.Fprintf(&sb, `["x\t%d",[]]`, i)
			}
		}
		if rapid.IntRange(0, 5).Draw(rt, "truncate?") == 0 {
			return []byte(sb.String()) // unterminated: fails after a long prefix
		}
		if obj {
			sb.WriteByte('}')
		} else {
			sb.WriteByte(']')
		}
		return []byte(sb.String())
	case 3, 4, 5, 6:
		kind := want
		if kind == 0 || rapid.IntRange(0, 4).Draw(rt, "wrongtype?") == 0 {
			kind = byte("[{"[rapid.IntRange(0, 1).Draw(rt, "kind")])
		}
		b := gen.Container(rt, nil, gen.AnyProfile(rt), kind, rapid.IntRange(1, 5).Draw(rt, "depth"))
		if rapid.IntRange(0, 3).Draw(rt, "mut?") == 0 {
			b = gen.Mutate(rt, b)
		}
		return b
	case 7:
		return []byte([]string{"null", " null", "nul", "", " ", "[", "{", `{"a":`, "[1,", `"str"`, "1e400", "[1e400]", `{"a":1e999}`}[rapid.IntRange(0, 12).Draw(rt, "special")])
	default:
		b := gen.DocTrail(rt, gen.AnyProfile(rt))
		for k := rapid.IntRange(0, 3).Draw(rt, "nmut") / 2; k > 0; k-- {
			b = gen.Mutate(rt, b)
		}
		return b
	}
}

func TestC15(t *testing.T) {
	runProp(t, "C15", func(e *env) {
		r := e.r
		// 0. endurance: tens of millions of values through one reader (counters and budgets
		// that are per reader instead of per call), small reads before and after
		if e.enumStage("endurance", "one reader: small reads, then a 2^20-member document read 17 times (quick: flat array through ReadValue and ReadArray; thorough: 4 member kinds x 3 entry points, 2^26 values), then small successful and failing reads", true) {
			type bulk struct {
				kind    string
				variant int64
			}
			bulks := []bulk{{"ReadValue", 0}, {"ReadArray", 0}}
			reps := int64(17)
			if e.cfg.Thorough() {
				bulks = []bulk{{"ReadValue", 0}, {"ReadArray", 0}, {"ReadValue", 1}, {"ReadObject", 1}, {"ReadValue", 2}, {"ReadArray", 2}, {"ReadValue", 3}, {"ReadArray", 3}}
				reps = 65
			}
			for bi, b := range bulks {
				if !e.cfg.Mine(bi) {
					continue
				}
				restore := deterministicGC()
				var run c15Runner
				run.beat = r.Idle
				hist := []core.Case{
					{Kind: "ReadValue", In: []byte(`{"a":[1,{"b":"x\n"}],"c":{}}`)},
					{Kind: "ReadValue", In: []byte(`[1,`)},
					{Kind: "bulk:" + b.kind, Ints: []int64{1 << 20, reps, b.variant}},
					{Kind: "ReadValue", In: []byte(`{"a":[1,{"b":"x\n"}],"c":{}}`)},
					{Kind: "ReadArray", In: []byte(`[[],{},"s",[1,2,3]]`)},
					{Kind: "ReadObject", In: []byte(`{"k":[`)},
					{Kind: "ReadObject", In: []byte(`{"k":[{"k":1}]}`)},
				}
				for i := range hist {
					r.BeginCase(&core.Case{Prop: "C15", Kind: "history", Steps: hist[:i+1]})
					info, err := run.step(&hist[i])
					r.Eval(core.HashInts(core.Hash([]byte(hist[i].Kind), hist[i].In), append([]int64{int64(bi), int64(i)}, hist[i].Ints...)...), info.nontrivial || i >= 3)
					r.Label("step." + hist[i].Kind)
					if err != nil {
						r.Fail(&core.Case{Prop: "C15", Kind: "history", Steps: hist[:i+1]}, fmt.Errorf("step %d: %w", i, err))
						restore()
						return
					}
				}
				restore()
			}
		}
		e.rapidStage("histories", "stateful", e.cfg.N(600, 100000), func(rt *rapid.T) {
			defer deterministicGC()() // collections happen only at history start and at GC steps
			var run c15Runner
			run.beat = r.Idle
			var hist []core.Case
			hkey := uint64(14695981039346656037)
			do := func(step core.Case) {
				hist = append(hist, step)
				hkey = core.HashInts(core.Hash([]byte(step.Kind), step.In)^hkey, step.Ints...)
				r.BeginCase(&core.Case{Prop: "C15", Kind: "history", Steps: hist})
				info, err := run.step(&hist[len(hist)-1])
				r.Eval(hkey, info.nontrivial)
				r.Label("step." + step.Kind)
				if step.Kind != "GC" && step.Kind != "mutate" {
					if info.ok {
						r.Label("read.ok")
					} else {
						r.Label("read.fails")
					}
				}
				if info.nontrivial && r.WantSample(hkey) {
					r.Sample(map[string]interface{}{"history": describeSteps(hist), "kept_results": len(run.kept)})
				}
				if err != nil {
					cc := &core.Case{Prop: "C15", Kind: "history", Steps: append([]core.Case(nil), hist...)}
					failRapid(rt, r, cc, fmt.Errorf("step %d: %w", len(hist)-1, err))
				}
			}
			rt.Repeat(map[string]func(*rapid.T){
				"ReadValue":  func(rt *rapid.T) { do(core.Case{Kind: "ReadValue", In: c15Doc(rt, 0)}) },
				"ReadValue2": func(rt *rapid.T) { do(core.Case{Kind: "ReadValue", In: c15Doc(rt, 0)}) },
				"ReadObject": func(rt *rapid.T) { do(core.Case{Kind: "ReadObject", In: c15Doc(rt, '{')}) },
				"ReadArray":  func(rt *rapid.T) { do(core.Case{Kind: "ReadArray", In: c15Doc(rt, '[')}) },
				"variant": func(rt *rapid.T) {
					// an earlier input of this history with one small edit (whatever the reader
					// remembers about a document it has seen must not leak into a near-copy)
					var prev []int
					for i := range hist {
						if len(hist[i].In) > 0 && len(hist[i].In) < 4096 {
							prev = append(prev, i)
						}
					}
					if len(prev) == 0 {
						rt.Skip("no earlier input")
					}
					base := hist[prev[rapid.IntRange(0, len(prev)-1).Draw(rt, "which")]]
					b := append([]byte(nil), base.In...)
					if rapid.Bool().Draw(rt, "beforequote") {
						var quotes []int
						for i, c := range b {
							if c == '"' {
								quotes = append(quotes, i)
							}
						}
						if len(quotes) > 0 {
							at := quotes[rapid.IntRange(0, len(quotes)-1).Draw(rt, "quote")]
							c := []byte{0x00, 0x00, 0x01, 0x1f, '\\', '"', 'x', 0x7f, 0xff, ' '}[rapid.IntRange(0, 9).Draw(rt, "byte")]
							b = append(b[:at:at], append([]byte{c}, b[at:]...)...)
						}
					} else {
						b = gen.Mutate(rt, b)
					}
					do(core.Case{Kind: base.Kind, In: b})
				},
				"GC": func(rt *rapid.T) {
					if len(hist) == 0 || rapid.IntRange(0, 3).Draw(rt, "gc?") != 0 {
						rt.Skip("no GC this time")
					}
					do(core.Case{Kind: "GC"})
				},
				"mutate": func(rt *rapid.T) {
					if len(run.kept) == 0 {
						rt.Skip("nothing to mutate")
					}
					do(core.Case{Kind: "mutate", Ints: []int64{int64(rapid.IntRange(0, len(run.kept)-1).Draw(rt, "which"))}})
				},
			})
		})
		// 0b. size ladders: containers whose sizes are chosen relative to a big one seen earlier
		// on the same reader (a hundredth ... all of it), read one after the other through every
		// entry point, or as siblings inside one document: what a reader keeps of a big container
		// (a spare backing array, a slab, a size hint) must not end up shared between results.
		// The expected trees are built next to the documents, not decoded.
		e.rapidStage("size-ladders", "stateful", e.cfg.N(120, 8000), func(rt *rapid.T) {
			defer deterministicGC()()
			var run c15Runner
			run.beat = r.Idle
			var hist []core.Case
			big := []int64{100, 300, 5000, 20000, 70000, 70000}[rapid.IntRange(0, 5).Draw(rt, "big")]
			frac := func(label string) int64 {
				switch k := rapid.IntRange(0, 15).Draw(rt, label); k {
				case 0:
					return 0
				case 1:
					return 3
				case 2:
					return big / 100
				case 3:
					return big / 10
				case 4:
					return big / 5
				case 5:
					return big/4 - 1
				case 6:
					return big/4 + 1
				case 7:
					return big / 3
				case 8:
					return big / 2
				case 9:
					return big/2 + 1
				case 10:
					return big * 6 / 10
				case 11:
					return big * 9 / 10
				case 12:
					return big
				case 13:
					return big + 1
				case 14:
					return []int64{63, 64, 65, 4095, 4096, 4097, 65535, 65536, 65537}[rapid.IntRange(0, 8).Draw(rt, label+".edge")]
				default:
					return big * 2
				}
			}
			nsteps := rapid.IntRange(3, 6).Draw(rt, "steps")
			variant := int64(rapid.IntRange(0, 1).Draw(rt, "variant"))
			if big > 5000 {
				variant = 0 // maps of tens of thousands of keys make the comparison the bottleneck
			}
			hkey := uint64(14695981039346656037)
			for i := 0; i < nsteps; i++ {
				kind := []string{"ReadArray", "ReadValue", "ReadArray", "ReadValue", "ReadObject"}[rapid.IntRange(0, 4).Draw(rt, "entry")]
				if big > 5000 && kind == "ReadObject" && rapid.IntRange(0, 3).Draw(rt, "keepobj") != 0 {
					kind = "ReadArray"
				}
				ints := []int64{variant, int64(i) * 7000001}
				if i == 0 {
					ints = append(ints, big)
				} else if rapid.IntRange(0, 3).Draw(rt, "siblings?") == 0 {
					for k := rapid.IntRange(2, 5).Draw(rt, "nsib"); k > 0; k-- {
						ints = append(ints, frac("sib"))
					}
					if rapid.Bool().Draw(rt, "bigfirst") {
						ints[2] = big
					}
				} else {
					ints = append(ints, frac("size"))
				}
				hist = append(hist, core.Case{Kind: "sized:" + kind, Ints: ints})
				hkey = core.HashInts(core.Hash([]byte(kind), nil)^hkey, ints...)
				r.BeginCase(&core.Case{Prop: "C15", Kind: "history", Steps: hist})
				info, err := run.step(&hist[len(hist)-1])
				r.Eval(hkey, i >= 2 && info.ok)
				r.Label("step.sized")
				if i >= 2 && r.WantSample(hkey) {
					r.Sample(map[string]interface{}{"history": describeSteps(hist), "kept_results": len(run.kept)})
				}
				if err != nil {
					cc := &core.Case{Prop: "C15", Kind: "history", Steps: append([]core.Case(nil), hist...)}
					failRapid(rt, r, cc, fmt.Errorf("step %d: %w", len(hist)-1, err))
				}
			}
		})
	})
}
