package props

import (
	"fmt"
	"testing"

	"verifharness/core"
	"verifharness/gen"
	"verifharness/ref"

	"pgregory.net/rapid"
)

func TestC17(t *testing.T) {
	runProp(t, "C17", func(e *env) {
		e.coldStage(10, 24, 25)
		r := e.r
		scratch := make([]byte, 0, 64)
		evalStr := func(kind string, s []byte) error {
			nt, err := c17String(s, scratch)
			if err == errOracle {
				r.Inconclusive("hand-written UTF-8 recogniser and []rune conversion disagree", &core.Case{Prop: "C17", Kind: "string", In: append([]byte(nil), s...)})
				return nil
			}
			if nt {
				key := core.Hash(s)
				r.Eval(key, true)
				if r.WantSample(key) {
					r.SampleInput(key, kind, s)
				}
			} else {
				r.EvalN(1)
			}
			return err
		}
		// 1. all 1-, 2- and 3-byte strings (quick: 3-byte strings whose first byte is one of 40
		// boundary bytes; thorough: all 16.8M, plus 4-byte strings with 14 boundary leads)
		leads3 := []byte{0x00, 0x41, 0x7f, 0x80, 0xa0, 0xbf, 0xc0, 0xc1, 0xc2, 0xc3, 0xdf, 0xe0, 0xe1, 0xec, 0xed, 0xee, 0xef, 0xf0, 0xf1, 0xf3, 0xf4, 0xf5, 0xf7, 0xf8, 0xfb, 0xfc, 0xfd, 0xfe, 0xff, 0x22, 0x5c, 0x20, 0x90, 0x8f, 0x9f, 0xa1, 0xd0, 0xe8, 0xf2, 0x7e}
		space := "all 1- and 2-byte strings; 3-byte strings with 40 boundary first bytes x all 65536 continuations"
		if e.cfg.Thorough() {
			space = "all 1-, 2- and 3-byte strings (16,843,008); 4-byte strings with 14 boundary lead bytes x all 2^24 continuations"
		}
		if e.enumStage("short-strings", space, true) {
			ok := true
			try := func(b []byte) bool {
				r.Begin("string", b)
				if err := core.Catch(func() error { return evalStr("string", b) }); err != nil {
					r.Fail(&core.Case{Prop: "C17", Kind: "string", In: append([]byte(nil), b...)}, err)
					ok = false
				}
				return ok
			}
			buf := make([]byte, 4)
			try(buf[:0])
			for a := 0; a < 256 && ok; a++ {
				buf[0] = byte(a)
				if e.cfg.Mine(a) {
					try(buf[:1])
				}
				for b := 0; b < 256 && ok; b++ {
					buf[1] = byte(b)
					if e.cfg.Mine(a*256 + b) {
						try(buf[:2])
					}
				}
			}
			firsts := leads3
			if e.cfg.Thorough() {
				firsts = make([]byte, 256)
				for i := range firsts {
					firsts[i] = byte(i)
				}
			}
			for _, a := range firsts {
				buf[0] = a
				for b := 0; b < 256 && ok; b++ {
					if !e.cfg.Mine(int(a)*256 + b) {
						continue
					}
					buf[1] = byte(b)
					for c := 0; c < 256 && ok; c++ {
						buf[2] = byte(c)
						try(buf[:3])
					}
				}
			}
			if e.cfg.Thorough() {
				for _, a := range []byte{0xf0, 0xf1, 0xf3, 0xf4, 0xf5, 0xef, 0xed, 0xe0, 0xc2, 0xdf, 0xc1, 0x80, 0xbf, 0x41} {
					buf[0] = a
					for b := 0; b < 256 && ok; b++ {
						if !e.cfg.Mine(int(a)*256 + b) {
							continue
						}
						buf[1] = byte(b)
						for c := 0; c < 256 && ok; c++ {
							buf[2] = byte(c)
							for d := 0; d < 256 && ok; d++ {
								buf[3] = byte(d)
								try(buf[:4])
							}
						}
						r.Idle()
					}
				}
			}
		}
		// 1b. alignment: ASCII runs of every length 0..136, then one of 16 multi-byte / invalid
		// sequences, then an ASCII tail of length 0..12 (8-bytes-at-a-time scanners)
		if e.enumStage("alignment", "ASCII run of length 0..136 and round 256/512/1024/4096 + one of 16 valid/invalid sequences + ASCII tail of length 0..12 (chunked and word-at-a-time scanners); runs of 2^16, 2^20 (thorough 2^24) +-1 with all 16 sequences x 3 tails", true) {
			seqs := []string{"\xff", "\x80", "\xc3", "\xc3\xa9", "\xe2\x82", "\xe2\x82\xac", "\xf0\x9f\x98", "\xf0\x9f\x98\x80", "\xed\xa0\x80", "\xc0\xaf", "\xf4\x90\x80\x80", "\xc3\xa9\xff", "\xff\xc3\xa9", "\xef\xbf\xbd", "\xef\xbf", "\xfe\xfe\xff\xff"}
			buf := make([]byte, 0, 4200)
			idx := 0
			var runLens []int
			for L := 0; L <= 136; L++ {
				runLens = append(runLens, L)
			}
			for _, base := range []int{256, 512, 1024, 4096} {
				for L := base - 6; L <= base+2; L++ {
					runLens = append(runLens, L)
				}
			}
			nSmall := len(runLens)
			for _, base := range []int{1 << 16, 1 << 20, 1 << 24}[:e.cfg.Pick(2, 3)] {
				runLens = append(runLens, base-1, base, base+1)
			}
		al:
			for li, L := range runLens {
				for si, sq := range seqs {
					idx++
					if !e.cfg.Mine(idx) {
						continue
					}
					_ = si // large runs: every sequence, 3 tail lengths
					for T := 0; T <= 12; T++ {
						if li >= nSmall && T != 0 && T != 1 && T != 4 {
							continue
						}
						buf = buf[:0]
						for i := 0; i < L; i++ {
							buf = append(buf, byte('a'+i%26))
						}
						if L > 0 && T%2 == 1 {
							buf[0] = 0xff // an early invalid byte: the whole string takes the slow path
						}
						buf = append(buf, sq...)
						for i := 0; i < T; i++ {
							buf = append(buf, 'z')
						}
						r.Begin("string", buf)
						if err := core.Catch(func() error { return evalStr("alignment", buf) }); err != nil {
							r.Fail(&core.Case{Prop: "C17", Kind: "string", In: append([]byte(nil), buf...)}, err)
							break al
						}
					}
				}
			}
		}
		// 2. longer strings from pieces and free bytes
		e.rapidStage("long-strings", "rapid", e.cfg.N(40000, 3000000), func(rt *rapid.T) {
			var b []byte
			n := rapid.IntRange(0, 24).Draw(rt, "n")
			for i := 0; i < n; i++ {
				switch rapid.IntRange(0, 3).Draw(rt, "k") {
				case 0:
					b = append(b, byte(rapid.IntRange(0, 255).Draw(rt, "byte")))
				case 1:
					b = append(b, []string{"\xc3", "\xe2\x82", "\xf0\x9f\x98", "\xed\xa0\x80", "\xf4\x90\x80\x80", "\xc0\xaf", "\xe0\x80\x80", "\xff", "\x80", "\xbf"}[rapid.IntRange(0, 9).Draw(rt, "bad")]...)
				default:
					b = append(b, []string{"a", "é", "€", "😀", "�", "\x00", "\x7f", "ÿ", "߿", "ࠀ", "￿", "\U00010000", "\U0010ffff"}[rapid.IntRange(0, 12).Draw(rt, "good")]...)
				}
			}
			r.Begin("string", b)
			if err := core.Catch(func() error { return evalStr("long-string", b) }); err != nil {
				failRapid(rt, r, &core.Case{Prop: "C17", Kind: "string", In: b}, err)
			}
		})
		// 3. value trees with such strings as values and keys at every depth, via documents
		e.rapidStage("trees", "rapid", e.cfg.N(30000, 2000000), func(rt *rapid.T) {
			p := gen.AnyProfile(rt)
			kind := byte("[{"[rapid.IntRange(0, 1).Draw(rt, "kind")])
			doc := gen.Container(rt, nil, p, kind, 1+rapid.IntRange(0, p.MaxDepth).Draw(rt, "depth"))
			tree, _, derr := ref.Decode(doc)
			if derr != nil {
				r.Label("tree.number-overflow")
				return
			}
			key := core.Hash(doc)
			r.Begin("doc", doc)
			err := core.Catch(func() error {
				skipped, err := c17Tree(tree)
				if skipped {
					r.Label("tree.excluded(colliding keys)")
					r.EvalN(1)
					return nil
				}
				if err != nil {
					return err
				}
				app, err := c17Doc(doc)
				if app {
					r.Label("tree.doc-vs-encoding/json")
				}
				nt := ref.HasInvalidUTF8(doc)
				r.Eval(key, nt)
				if nt && r.WantSample(key) {
					r.SampleInput(key, "doc", doc)
				}
				return err
			})
			if err != nil {
				failRapid(rt, r, &core.Case{Prop: "C17", Kind: "doc", In: doc}, err)
			}
		})
		// 4. deep trees: invalid UTF-8 at the bottom of nesting up to and beyond the decoder's
		// limit (the helpers recurse on their own and must convert at every depth)
		if e.enumStage("deep-trees", "7 array/object mixtures x depths {100, 9999, 10000} decoded from documents, and hand-built trees of depth {10001, 20000, 100000}: invalid UTF-8 in the innermost string value and key", true) {
			idx := 0
		deep:
			for _, pat := range gen.NestPatterns {
				for _, d := range []int{100, 9999, 10000} {
					for _, bottom := range []string{"\"a\xffb\"", "{\"k\xfe\":\"v\xc0\xaf\"}", "[\"\xed\xa0\x80\",1]"} {
						idx++
						if !e.cfg.Mine(idx) {
							continue
						}
						dd := d
						if bottom[0] != '"' {
							dd-- // the bottom is a container itself
						}
						doc := gen.NestSpec{Depth: dd, Pattern: pat, Close: dd, Bottom: bottom}.Build()
						r.Begin("doc", doc)
						err := core.Catch(func() error {
							tree, _, derr := ref.Decode(doc)
							if derr != nil {
								return fmt.Errorf("reference decoder rejects a %d-deep document: %v", d, derr)
							}
							if _, err := c17Tree(tree); err != nil {
								return err
							}
							_, err := c17Doc(doc)
							return err
						})
						r.Eval(core.Hash(doc), true)
						r.Label(fmt.Sprintf("deep.depth=%d", d))
						if err != nil {
							r.Fail(&core.Case{Prop: "C17", Kind: "doc", In: doc}, err)
							break deep
						}
					}
				}
			}
			for _, d := range []int{10001, 20000, 100000} {
				idx++
				if !e.cfg.Mine(idx) || r.Failed() {
					continue
				}
				// hand-built: alternating slices and maps, deeper than any decoder output
				c := &core.Case{Prop: "C17", Kind: "built-tree", Ints: []int64{int64(d)}}
				r.BeginCase(c)
				err := core.Catch(func() error { return c17BuiltTree(d) })
				r.Eval(core.HashInts(0xdee9, int64(d)), true)
				r.Label(fmt.Sprintf("deep.depth=%d", d))
				if err != nil {
					r.Fail(c, err)
				}
			}
		}
	})
}
