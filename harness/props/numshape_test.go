package props

import (
	"testing"

	"verifharness/ref"
)

// every number shape is one well-formed JSON number token
func TestNumShapesAreNumbers(t *testing.T) {
	for _, li := range numShapeLens {
		for _, lf := range append([]int{0}, numShapeLens...) {
			for _, le := range numShapeExpLens {
				for v := 0; v < 24; v++ {
					b := numShape(nil, li, lf, le, v)
					if end := ref.Skip(b, 10); end != len(b) {
						t.Fatalf("li=%d lf=%d le=%d v=%d: %.60q ends at %d of %d", li, lf, le, v, b, end, len(b))
					}
				}
			}
		}
	}
}
