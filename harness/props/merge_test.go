package props

import (
	"encoding/binary"
	"fmt"
	"os"
	"path/filepath"
	"sort"
	"testing"
)

// TestMergeHashes prints the size of the union of the shards' non-trivial hash sets
// (hashes-*.bin in VERIF_OUT). Used by the driver to merge shard evidence.
func TestMergeHashes(t *testing.T) {
	dir := os.Getenv("VERIF_MERGE")
	if dir == "" {
		t.Skip("VERIF_MERGE not set")
	}
	files, _ := filepath.Glob(filepath.Join(dir, "hashes-*.bin"))
	var all []uint64
	for _, f := range files {
		b, err := os.ReadFile(f)
		if err != nil {
			t.Fatal(err)
		}
		for i := 0; i+8 <= len(b); i += 8 {
			all = append(all, binary.LittleEndian.Uint64(b[i:]))
		}
	}
	sort.Slice(all, func(i, j int) bool { return all[i] < all[j] })
	n := 0
	for i, h := range all {
		if i == 0 || h != all[i-1] {
			n++
		}
	}
	fmt.Printf("MERGED-DISTINCT: %d\n", n)
}
