package props

import (
	"os"
	"testing"
)

// TestColdChild is the child side of the cold-start comparison (see cold.go). Without the
// environment variable it does nothing.
func TestColdChild(t *testing.T) {
	if os.Getenv("VERIF_COLD_OP") == "" {
		t.Skip("child mode only")
	}
	coldChildMain()
}
