package props

import "math"

func fromBits(b uint64) float64 { return math.Float64frombits(b) }
