package props

import (
	"bytes"
	"fmt"

	"verifharness/core"
	"verifharness/ref"

	"github.com/willabides/rjson"
)

func init() { Checks["C07"] = CheckC07 }

// c07Result classifies one evaluation for the evidence.
type c07Result struct {
	inDomain   bool
	ok         bool
	members    int
	nontrivial bool
}

// c07Check: Ints = [kind, buffer config, strategy bits]. The handler answers call k with
// the exact end offset when bit k of the strategy is set and 0 otherwise.
func c07Check(in []byte, kind byte, buf *rjson.Buffer, bits uint64) (res c07Result, err error) {
	if rawDepthOver(in, ref.MaxDepth) {
		return res, nil // outside the property's domain (nested deeper than 10,000)
	}
	res.inDomain = true
	i0 := ref.SkipWS(in, 0)
	end := ref.Skip(in, ref.MaxDepth)
	isNull := end >= 0 && in[i0] == 'n'
	wantOK := end >= 0 && (in[i0] == kind || isNull)
	h := &recHandler{decide: bitStrategy(bits), limit: len(in) + 1}
	p, herr := traverse(kind, in, h, buf)
	if h.over {
		return res, fmt.Errorf("handler called %d times on a %d-byte input", len(h.calls), len(in))
	}
	if (herr == nil) != wantOK {
		return res, fmt.Errorf("traversal err=%v p=%d; reference: first value well-formed=%v, starts with %q; success expected=%v", herr, p, end >= 0, string(in[i0:minInt(i0+1, len(in))]), wantOK)
	}
	if !wantOK {
		return res, nil
	}
	res.ok = true
	if p != end {
		return res, fmt.Errorf("returned offset %d; the value ends at %d", p, end)
	}
	if isNull {
		if len(h.calls) != 0 {
			return res, fmt.Errorf("handler called %d times for the literal null", len(h.calls))
		}
		return res, nil
	}
	ms, _ := ref.Members(in)
	res.members = len(ms)
	if len(h.calls) != len(ms) {
		return res, fmt.Errorf("handler called %d times; the container has %d members", len(h.calls), len(ms))
	}
	exactOnContainer, zeros, ones := false, 0, 0
	for i, m := range ms {
		c := h.calls[i]
		if c.start != m.Start || !c.suffix {
			return res, fmt.Errorf("call %d received data at document offset %d (suffix=%v); member %d starts at %d", i, c.start, c.suffix, i, m.Start)
		}
		if kind == '{' && !bytes.Equal(c.key, in[m.KeyStart:m.KeyEnd]) {
			return res, fmt.Errorf("call %d received key %q; raw bytes between the quotes are %q", i, c.key, in[m.KeyStart:m.KeyEnd])
		}
		if kind == '[' && c.key != nil {
			return res, fmt.Errorf("array handler received a key")
		}
		if bits>>(uint(i)%64)&1 == 1 {
			ones++
			if in[m.Start] == '[' || in[m.Start] == '{' {
				exactOnContainer = true
			}
		} else {
			zeros++
		}
	}
	res.nontrivial = (len(ms) >= 2 && zeros > 0 && ones > 0) || exactOnContainer
	return res, nil
}

func minInt(a, b int) int {
	if a < b {
		return a
	}
	return b
}

func CheckC07(c *core.Case) error {
	if c.Kind == "cold" {
		return checkCold(c)
	}
	if len(c.Ints) < 3 {
		return fmt.Errorf("bad case: need ints [kind, buffer config, strategy bits]")
	}
	_, err := c07Check([]byte(c.In), byte(c.Ints[0]), bufferConfig(c.Ints[1]), uint64(c.Ints[2]))
	return err
}
