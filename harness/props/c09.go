package props

import (
	"context"
	"encoding/json"
	"errors"
	"fmt"
	"io"
	"math"
	"os"
	"reflect"
	"strconv"

	"verifharness/core"
	"verifharness/ref"

	"github.com/willabides/rjson"
)

func init() { Checks["C09"] = CheckC09 }

type customErr struct{ code int }

func (e *customErr) Error() string { return fmt.Sprintf("custom error %d", e.code) }

type valueErr struct{ a, b int }

func (e valueErr) Error() string { return "value error" }

// sliceErr and mapErr are error types whose values are neither comparable nor hashable.
type sliceErr []string

func (e sliceErr) Error() string { return "slice error" }

type mapErr map[string]int

func (e mapErr) Error() string { return "map error" }

// Typed-nil errors: a non-nil error interface whose dynamic value is a nil pointer, slice,
// map or func. To the traversal they are errors like any other (err != nil).
type nilPtrErr struct{ code int }

func (e *nilPtrErr) Error() string { return "typed-nil pointer error" }

type funcErr func() string

func (e funcErr) Error() string { return "func error" }

// errKinds is the number of error kinds (see mkErr and delegatedErr).
const errKinds = 23

// sameErr is interface identity for comparable errors and identity of the underlying
// storage for the uncomparable kinds (== would panic on them).
func sameErr(got, want error) bool {
	switch w := want.(type) {
	case sliceErr:
		g, ok := got.(sliceErr)
		if w == nil {
			return ok && g == nil
		}
		return ok && len(g) == len(w) && len(g) > 0 && &g[0] == &w[0]
	case mapErr:
		g, ok := got.(mapErr)
		return ok && (g == nil) == (w == nil) && reflect.ValueOf(g).Pointer() == reflect.ValueOf(w).Pointer()
	case funcErr:
		g, ok := got.(funcErr)
		return ok && g == nil && w == nil
	}
	switch got.(type) {
	case sliceErr, mapErr, funcErr:
		return false
	}
	if got == want && want == snapFor && want != nil {
		// same pointer: its contents must be what the handler put there
		return reflect.DeepEqual(reflect.ValueOf(got).Elem().Interface(), snap)
	}
	return got == want
}

// snapFor / snap: the most recent pointer-typed error made by mkErr and a copy of the struct
// it points to (the traversal must neither replace nor edit it).
var (
	snapFor error
	snap    interface{}
)

// mkErr builds a fresh error value of the given kind (all kinds are comparable with ==).
func mkErr(kind int64) error {
	switch kind {
	case 8:
		return sliceErr{"a", "b"}
	case 9:
		return mapErr{"k": 1}
	case 10:
		return (*nilPtrErr)(nil)
	case 11:
		return sliceErr(nil)
	case 12:
		return mapErr(nil)
	case 13:
		return funcErr(nil)
	case 14:
		return io.EOF // sentinels of the standard library, as a handler reading from elsewhere would pass on
	case 15:
		return io.ErrUnexpectedEOF
	case 16:
		return context.Canceled
	case 17:
		return os.ErrNotExist
	case 18, 19, 20, 21, 22:
		// pointer-typed errors of the standard library with position / context fields, as a
		// handler that delegates a member to encoding/json, strconv or the file system returns
		var e error
		switch kind {
		case 18:
			var v interface{}
			e = json.Unmarshal([]byte(`{"a" 1}`), &v) // *json.SyntaxError
		case 19:
			var v struct{ A int }
			e = json.Unmarshal([]byte(`{"A":"x"}`), &v) // *json.UnmarshalTypeError
		case 20:
			_, e = strconv.Atoi("12x") // *strconv.NumError
		case 21:
			e = &os.PathError{Op: "open", Path: "/nonexistent/x", Err: os.ErrNotExist}
		default:
			e = &json.MarshalerError{Type: reflect.TypeOf(0), Err: io.EOF}
		}
		snapFor, snap = e, reflect.ValueOf(e).Elem().Interface()
		return e
	}
	switch kind % 4 {
	case 0:
		return errors.New("handler failure")
	case 1:
		return &customErr{code: 7}
	case 2:
		return fmt.Errorf("wrapped: %w", errors.New("inner"))
	default:
		return valueErr{1, 2}
	}
}

// hostilePoolSize is the number of offsets in the hostile pool.
const hostilePoolSize = 28

// hostileOffset maps a selector to an offset a handler may return (relative to data).
func hostileOffset(sel int64, data []byte) int {
	exact := exactEnd(data)
	pool := []int{math.MinInt, math.MinInt + 1, -1 << 40, -1, 0, 1, exact - 1, exact, exact + 1, exact / 2, len(data), len(data) + 1, 2 * len(data),
		1<<31 - 1, 1 << 31, 1<<31 + 1, 1 << 62, math.MaxInt - len(data), math.MaxInt - len(data) + 1, math.MaxInt - 1, math.MaxInt, 2, 3, len(data) - 1,
		len(data) + 2, len(data) + 3, -2, math.MinInt + len(data)}
	if sel < 0 {
		sel = -sel
	}
	if len(pool) != hostilePoolSize {
		panic("hostilePoolSize out of date")
	}
	return pool[int(sel%int64(len(pool)))]
}

// delegatedErr: error kinds 4..7 make the failing handler return an error it obtained from
// the library itself by delegating to another rjson function on its data (that is how a
// handler comes to hold one of the library's own error values); nil if that call succeeds.
func delegatedErr(kind int64, data []byte, buf *rjson.Buffer) error {
	var err error
	switch kind % 8 {
	case 4:
		_, err = rjson.SkipValue(data, buf)
	case 5:
		_, err = rjson.SkipValueFast(data, nil)
	case 6:
		if len(data) > 0 && data[0] == '{' {
			_, err = rjson.HandleObjectValues(data, &nopHandler{}, nil)
		} else {
			_, err = rjson.HandleArrayValues(data, &nopHandler{}, nil)
		}
	case 7:
		_, _, err = rjson.ReadValue(data)
	}
	return err
}

// c09Check: Ints = [kind, failAt k, offset selector, error kind, nesting(0/1), strategy bits, buffer config].
// The handler answers calls before k by the strategy bits, and call k with
// (hostile offset, fresh error). With nesting=1 the failing handler is the handler of an
// inner traversal started by the outer handler on the first container member; the outer
// handler passes the inner error on unchanged.
//
// pre (optional 8th int) makes the failing call do successful work on its member first, with
// the traversal's own Buffer, the way a handler that decodes a member and then rejects it
// behaves: 1 = a nested traversal of the member with a declining handler, 2 = SkipValue,
// 3 = SkipValueFast, 4 = Valid on the member's bytes, 5 = a nested traversal whose handler
// skips every member with SkipValue, 6 = ReadValue (no Buffer involved).
func c09Check(in []byte, kind byte, failAt int, offSel, errKind int64, nested bool, bits uint64, buf *rjson.Buffer, pre int64) (reached, nontrivial bool, err error) {
	sentinel := mkErr(errKind % errKinds)
	if errKind%errKinds < 8 {
		sentinel = mkErr(errKind % 4)
	}
	var usedOff int
	if !nested {
		h := &recHandler{limit: len(in) + 2}
		h.decide = func(k int, key, data []byte) (int, error) {
			if k == failAt {
				usedOff = hostileOffset(offSel, data)
				if errKind%errKinds >= 4 && errKind%errKinds < 8 {
					if de := delegatedErr(errKind%errKinds, data, buf); de != nil {
						sentinel = de // the handler passes on the library's own error value
					}
				}
				c09PreWork(pre, data, buf)
				return usedOff, sentinel
			}
			if k > failAt {
				return 0, nil
			}
			return bitStrategy(bits)(k, key, data)
		}
		_, gerr := traverse(kind, in, h, buf)
		if len(h.calls) <= failAt {
			return false, false, nil // the failing call was never reached
		}
		if len(h.calls) != failAt+1 {
			return true, true, fmt.Errorf("handler returned an error on call %d but was called %d times in total", failAt, len(h.calls))
		}
		if !sameErr(gerr, sentinel) {
			return true, true, fmt.Errorf("traversal returned %#v (%v); the handler's error value was %#v", gerr, gerr, sentinel)
		}
		return true, failAt >= 1 || usedOff != 0, nil
	}
	// nested: the outer handler starts an inner traversal on the first container member
	innerCalls, outerAfter := 0, 0
	failed := false
	outer := &recHandler{limit: len(in) + 2}
	outer.decide = func(k int, key, data []byte) (int, error) {
		if failed {
			outerAfter++
			return 0, nil
		}
		if len(data) == 0 || (data[0] != '[' && data[0] != '{') {
			return bitStrategy(bits)(k, key, data)
		}
		inner := &recHandler{limit: len(data) + 2}
		inner.decide = func(ik int, ikey, idata []byte) (int, error) {
			innerCalls++
			if ik == failAt {
				failed = true
				usedOff = hostileOffset(offSel, idata)
				if errKind%errKinds >= 4 && errKind%errKinds < 8 {
					if de := delegatedErr(errKind%errKinds, idata, buf); de != nil {
						sentinel = de
					}
				}
				return usedOff, sentinel
			}
			if ik > failAt {
				return 0, fmt.Errorf("inner handler called again after it failed")
			}
			return 0, nil
		}
		p, ierr := traverse(data[0], data, inner, buf)
		if failed {
			if len(inner.calls) != failAt+1 {
				return p, fmt.Errorf("inner handler called %d times after failing at %d", len(inner.calls), failAt)
			}
			if !sameErr(ierr, sentinel) {
				return p, fmt.Errorf("inner traversal returned %#v instead of the handler's error", ierr)
			}
			return p, ierr // pass it on unchanged
		}
		return p, ierr
	}
	_, gerr := traverse(kind, in, outer, buf)
	if !failed {
		return false, false, nil
	}
	if outerAfter != 0 {
		return true, true, fmt.Errorf("outer handler was called %d more times after its call returned an error", outerAfter)
	}
	if !sameErr(gerr, sentinel) {
		return true, true, fmt.Errorf("outer traversal returned %#v (%v); the inner handler's error value was %#v", gerr, gerr, sentinel)
	}
	return true, true, nil
}

// c09PreWork: what the failing call does with its member before it returns the error.
func c09PreWork(pre int64, data []byte, buf *rjson.Buffer) {
	decline := &recHandler{limit: len(data) + 2}
	decline.decide = func(int, []byte, []byte) (int, error) { return 0, nil }
	skipper := &recHandler{limit: len(data) + 2}
	skipper.decide = func(_ int, _ []byte, d []byte) (int, error) { return rjson.SkipValue(d, buf) }
	container := len(data) > 0 && (data[0] == '[' || data[0] == '{')
	switch pre {
	case 1:
		if container {
			_, _ = traverse(data[0], data, decline, buf)
		}
	case 2:
		_, _ = rjson.SkipValue(data, buf)
	case 3:
		_, _ = rjson.SkipValueFast(data, buf)
	case 4:
		if p, err := rjson.SkipValue(data, nil); err == nil {
			_ = rjson.Valid(data[:p], buf)
		}
	case 5:
		if container {
			_, _ = traverse(data[0], data, skipper, buf)
		}
	case 6:
		_, _, _ = rjson.ReadValue(data)
	}
}

// chainHandler is a recursive handler: on a container member it starts a nested traversal
// (same Buffer) with itself as handler, and whatever that returns it answers with an error
// value of its own for this level - the way code that adds context to errors behaves. Every
// traversal of the chain must return exactly the value its handler returned.
type chainHandler struct {
	buf      *rjson.Buffer
	level    int
	returned map[int]error
	bad      error
}

func (h *chainHandler) handle(data []byte) (int, error) {
	lvl := h.level
	var mine error = &customErr{code: lvl}
	if len(data) == 0 || (data[0] != '[' && data[0] != '{') {
		h.returned[lvl] = mine
		return 0, mine // the innermost member: fail here
	}
	h.level++
	var p int
	var err error
	if data[0] == '[' {
		p, err = rjson.HandleArrayValues(data, h, h.buf)
	} else {
		p, err = rjson.HandleObjectValues(data, h, h.buf)
	}
	h.level--
	if want := h.returned[lvl+1]; h.bad == nil && (want == nil || err != want) {
		h.bad = fmt.Errorf("the traversal started at nesting level %d returned %v; its handler had returned %v", lvl+1, err, want)
	}
	h.returned[lvl] = mine
	return p, mine
}

func (h *chainHandler) HandleArrayValue(d []byte) (int, error)     { return h.handle(d) }
func (h *chainHandler) HandleObjectValue(_, d []byte) (int, error) { return h.handle(d) }

// c09Chain: a document nested depth levels deep, walked by a chainHandler.
func c09Chain(in []byte, shared bool) error {
	h := &chainHandler{returned: map[int]error{}}
	if shared {
		h.buf = &rjson.Buffer{}
	}
	i := ref.SkipWS(in, 0)
	if i >= len(in) {
		return nil
	}
	var err error
	if in[i] == '[' {
		_, err = rjson.HandleArrayValues(in, h, h.buf)
	} else {
		_, err = rjson.HandleObjectValues(in, h, h.buf)
	}
	if h.bad != nil {
		return h.bad
	}
	if want := h.returned[0]; want != nil && err != want {
		return fmt.Errorf("the outermost traversal returned %v; its handler had returned %v", err, want)
	}
	return nil
}

func CheckC09(c *core.Case) error {
	if c.Kind == "chain" {
		return c09Chain([]byte(c.In), len(c.Ints) > 0 && c.Ints[0] != 0)
	}
	if len(c.Ints) < 7 {
		return fmt.Errorf("bad case: need 7 ints")
	}
	pre := int64(0)
	if len(c.Ints) > 7 {
		pre = c.Ints[7]
	}
	_, _, err := c09Check([]byte(c.In), byte(c.Ints[0]), int(c.Ints[1]), c.Ints[2], c.Ints[3], c.Ints[4] != 0, uint64(c.Ints[5]), bufferConfig(c.Ints[6]), pre)
	return err
}

var _ = ref.MaxDepth
