package props

import (
	"fmt"
	"testing"

	"verifharness/core"
	"verifharness/gen"
	"verifharness/ref"

	"pgregory.net/rapid"
)

func TestC09(t *testing.T) {
	runProp(t, "C09", func(e *env) {
		r := e.r
		n := int64(0)
		one := func(kind string, in []byte, k byte, failAt int, offSel, errKind int64, nested bool, bits uint64, pres ...int64) error {
			n++
			cfg := n % 3
			pre := int64(0)
			if len(pres) > 0 {
				pre = pres[0]
				cfg = 1 // bufferConfig(1) is a Buffer: the handler's work shares it with the traversal
			}
			reached, nt, err := c09Check(in, k, failAt, offSel, errKind, nested, bits, bufferConfig(cfg%2), pre)
			key := core.HashInts(core.Hash(in), int64(k), int64(failAt), offSel, errKind, b2i(nested), int64(bits), pre)
			r.Eval(key, nt && reached)
			if reached {
				r.Label("failing-call-reached")
				if nested {
					r.Label("nested")
				}
			} else {
				r.Label("failing-call-not-reached")
			}
			if reached && nt && r.WantSample(key) {
				r.SampleInput(key, kind, in, "traversal", string(k), "fail_at", failAt, "offset_selector", offSel, "error_kind", errKind, "nested", nested)
			}
			if err != nil {
				return &caseErr{&core.Case{Prop: "C09", Kind: kind, In: append([]byte(nil), in...),
					Ints: []int64{int64(k), int64(failAt), offSel, errKind, b2i(nested), int64(bits), cfg % 2, pre}}, err}
			}
			return nil
		}
		// 1. small containers: every failing position x every offset in the hostile pool x error kinds
		if e.enumStage("grid", "34 container documents (every member kind, valid and invalid after the failing member) x failing position 0..4 x 28 hostile offsets x 23 error kinds (5 pointer-typed standard-library errors with offset / context fields (*json.SyntaxError, *json.UnmarshalTypeError, *strconv.NumError, *os.PathError, *json.MarshalerError; pointer identity and unchanged contents), 4 own comparable values, 2 uncomparable/unhashable types (slice- and map-based), 4 typed-nil values (nil pointer / slice / map / func inside a non-nil error interface), 4 standard-library sentinels (io.EOF, io.ErrUnexpectedEOF, context.Canceled, os.ErrNotExist) + 4 library errors obtained by delegating to SkipValue / SkipValueFast / a nested traversal / ReadValue on the member) x {direct, nested}", true) {
			docs := []string{`[1,2,3]`, `["a","b","c"]`, `[[1],[2],[3]]`, `[{"a":1},{"b":2}]`, `[null,true,"x",1.5,[],{}]`, `[1,"a",[2],{"b":3},null]`,
				`{"a":1,"b":2,"c":3}`, `{"a":"x","b":"y"}`, `{"a":[1],"b":[2]}`, `{"a":{"x":1},"b":{"y":2}}`, `{"a":null,"b":true,"c":"s","d":1e5,"e":[],"f":{}}`,
				` [ 1 , "a" , [ 2 ] ] `, ` { "a" : 1 , "b" : [ 2 ] } `, `[1,2,`, `[1,2,}`, `["a","b"x`, `{"a":1,"b":2,`, `{"a":"x","b"`, `[[1,2],[3,`, `{"a":[1,2],"b":{`,
				`[[["deep"]],2]`, `[1, "two", [3, [4, 5`, `{"a":{"b":[1,`, `[[1,2],{"a":tru`, `{"k":[1,{"x":"unterminated`, `[1,[2,[3,]]]`, `{"a":[1 2]}`, `{"k":{"k":{"k":1}},"z":0}`, `["\n","A"]`, `{"a\n":"b\t"}`, `[1]`, `{"a":1}`, `[[1,2,3]]`, `{"a":{"b":1,"c":2}}`}
		grid:
			for di, d := range docs {
				if !e.cfg.Mine(di) {
					continue
				}
				in := []byte(d)
				for failAt := 0; failAt < 5; failAt++ {
					for off := int64(0); off < hostilePoolSize; off++ {
						for ek := int64(0); ek < errKinds; ek++ {
							for _, nested := range []bool{false, true} {
								for _, k := range []byte{'[', '{'} {
									r.Begin("grid", in)
									if err := core.Catch(func() error { return one("grid", in, k, failAt, off, ek, nested, uint64(off*7+ek)) }); err != nil {
										r.Fail(caseOf("C09", "grid", in, err), err)
										break grid
									}
								}
							}
						}
					}
				}
			}
		}
		// 2. rapid containers x drawn failing position, offset, error kind, nesting, prior strategy
		e.rapidStage("containers", "rapid", e.cfg.N(60000, 4000000), func(rt *rapid.T) {
			p := gen.AnyProfile(rt)
			kind := byte("[{"[rapid.IntRange(0, 1).Draw(rt, "kind")])
			var b []byte
			b = append(b, []string{"", "", " ", "\n"}[rapid.IntRange(0, 3).Draw(rt, "pre")]...)
			b = gen.Container(rt, b, p, kind, 1+rapid.IntRange(0, p.MaxDepth).Draw(rt, "depth"))
			b = append(b, gen.Trailers[rapid.IntRange(0, len(gen.Trailers)-1).Draw(rt, "trail")]...)
			if rapid.IntRange(0, 3).Draw(rt, "mut?") == 0 {
				b = gen.Mutate(rt, b)
			}
			nm := 1
			if i0 := ref.SkipWS(b, 0); ref.Skip(b, ref.MaxDepth) >= 0 && (b[i0] == '[' || b[i0] == '{') {
				if ms, _ := ref.Members(b); len(ms) > 0 {
					nm = len(ms)
				}
			}
			failAt := rapid.IntRange(0, nm).Draw(rt, "failAt") // nm itself = one past the last member (never reached)
			if failAt > 0 && rapid.IntRange(0, 2).Draw(rt, "early?") == 0 {
				failAt = 0
			}
			off := int64(rapid.IntRange(0, hostilePoolSize-1).Draw(rt, "offset"))
			ek := int64(rapid.IntRange(0, errKinds-1).Draw(rt, "errkind"))
			nested := rapid.Bool().Draw(rt, "nested")
			bits := rapid.Uint64().Draw(rt, "strategy")
			r.Begin("container", b)
			if err := core.Catch(func() error { return one("container", b, kind, failAt, off, ek, nested, bits) }); err != nil {
				failRapid(rt, r, caseOf("C09", "container", b, err), err)
			}
		})
		// 2b. error chains through deep handler recursion: every level answers its nested
		// traversal's error with a value of its own; each traversal returns its handler's value
		if e.enumStage("deep-recursion", "7 array/object mixtures x nesting {3, 100, 9999, 10000, 10001, 10050, 20000} x {shared Buffer, no Buffer}: a recursive handler that returns a per-level error", true) {
			idx := 0
		chain:
			for _, pat := range gen.NestPatterns {
				for _, d := range []int{3, 100, 9999, 10000, 10001, 10050, 20000} {
					for _, shared := range []int64{1, 0} {
						idx++
						if !e.cfg.Mine(idx) {
							continue
						}
						doc := gen.NestSpec{Depth: d, Pattern: pat, Close: d, Bottom: "1"}.Build()
						c := &core.Case{Prop: "C09", Kind: "chain", In: doc, Ints: []int64{shared}}
						r.BeginCase(c)
						err := core.Catch(func() error { return c09Chain(doc, shared != 0) })
						r.Eval(core.HashInts(core.Hash(doc), shared), d > 1)
						r.Label("chain")
						if err != nil {
							r.Fail(c, err)
							break chain
						}
					}
				}
			}
		}
		// 3. long containers: the failing call far into a run of like members (traversals that
		// batch scalars, switch regime after some count, or look ahead over several members)
		if e.enumStage("long-containers", "arrays and objects of 300 members (compact integers, spaced integers, negative/fraction numbers, short strings, literals, small containers, a mixture) x failing call at 21 positions round 1, 8, 16, 32, 64, 128, 256 and the end x offsets {0, exact, MaxInt} x 3 error kinds x {direct, nested}", true) {
			elems := [][]string{{"7"}, {" 7 "}, {"12345"}, {"-1.5", "0", "2e3"}, {`"s"`}, {"true", "null"}, {"[1]", "{}"}, {"1", `"x"`, "[2]", "3", "4", `{"a":5}`, "6"}}
			fails := []int{0, 1, 2, 7, 8, 9, 15, 16, 17, 31, 32, 33, 63, 64, 65, 66, 127, 128, 129, 257, 299}
			idx := 0
		long:
			for ei, el := range elems {
				for _, obj := range []bool{false, true} {
					var b []byte
					if obj {
						b = append(b, '{')
					} else {
						b = append(b, '[')
					}
					for i := 0; i < 300; i++ {
						if i > 0 {
							b = append(b, ',')
						}
						if obj {
							b = append(b, fmt.Sprintf(`"k%d":`, i)...)
						}
						b = append(b, el[i%len(el)]...)
					}
					if obj {
						b = append(b, '}')
					} else {
						b = append(b, ']')
					}
					kind := b[0]
					for _, failAt := range fails {
						for oi, off := range []int64{4, 7, 20} { // pool selectors: 0, exact end, MaxInt
							idx++
							if !e.cfg.Mine(idx) {
								continue
							}
							for _, nested := range []bool{false, true} {
								in := b
								if nested { // the long container is the first member of an outer array
									in = append(append([]byte("["), b...), ",1]"...)
									kind = '['
								} else {
									kind = b[0]
								}
								ek := int64((ei + oi + failAt) % 4)
								r.Begin("long-container", in)
								if err := core.Catch(func() error { return one("long-container", in, kind, failAt, off, ek, nested, ^uint64(0)) }); err != nil {
									r.Fail(caseOf("C09", "long-container", in, err), err)
									break long
								}
							}
						}
					}
				}
			}
		}
		// 4. work, then fail: the failing call first does successful work on its member with the
		// traversal's own Buffer (walks it with a nested traversal, skips it, validates it) and only
		// then returns its error - a handler that decodes a member and rejects what it found
		if e.enumStage("work-then-fail", "20 well-formed container documents x failing position 0..4 x 6 kinds of successful work on the member before failing (nested declining traversal, SkipValue, SkipValueFast, Valid, nested skipping traversal, ReadValue; same Buffer) x 28 hostile offsets x 3 error kinds", true) {
			docs := []string{`[1,2,3]`, `["a","b","c"]`, `[[1],[2],[3]]`, `[{"a":1},{"b":2}]`, `[null,true,"x",1.5,[],{}]`, `[1,"a",[2],{"b":3},null]`,
				`{"a":1,"b":2,"c":3}`, `{"a":"x","b":"y"}`, `{"a":[1],"b":[2]}`, `{"a":{"x":1},"b":{"y":2}}`, `{"a":null,"b":true,"c":"s","d":1e5,"e":[],"f":{}}`,
				` [ 1 , "a" , [ 2 ] ] `, ` { "a" : 1 , "b" : [ 2 ] } `, `[[["deep"]],2]`, `{"k":{"k":{"k":1}},"z":0}`, `[[[1,[2]],[[3]]],[[4,5],[6]],7]`, `{"a":[[1,2],[3,[4]]],"b":[[5]],"c":0}`,
				`[{"a":{"b":[1,{"c":2}]}},{"d":[[]]},3]`, `[[],[[]],[[],[]]]`, `{"x":{},"y":{"z":{}},"w":[{}]}`}
			idx := 0
		wtf:
			for _, d := range docs {
				in := []byte(d)
				for failAt := 0; failAt < 5; failAt++ {
					for pre := int64(1); pre <= 6; pre++ {
						idx++
						if !e.cfg.Mine(idx) {
							continue
						}
						for off := int64(0); off < hostilePoolSize; off++ {
							for _, ek := range []int64{0, 9, 15} {
								k := byte('[')
								if in[ref.SkipWS(in, 0)] == '{' {
									k = '{'
								}
								r.Begin("work-then-fail", in)
								if err := core.Catch(func() error { return one("work-then-fail", in, k, failAt, off, ek, false, uint64(off*7+ek), pre) }); err != nil {
									r.Fail(caseOf("C09", "work-then-fail", in, err), err)
									break wtf
								}
							}
						}
					}
				}
			}
		}
	})
}

func b2i(b bool) int64 {
	if b {
		return 1
	}
	return 0
}
