package props

import (
	"fmt"

	"verifharness/core"
	"verifharness/ref"

	"github.com/willabides/rjson"
)

func init() { Checks["C02"] = CheckC02 }

// skipOracle: reference (success, end), whether the streaming encoding/json decoder gives
// the same pair, and the non-triviality rule of C02.
func skipOracle(in []byte) (end int, oracleOK, nontrivial bool) {
	end, errPos := ref.SkipPos(in, ref.MaxDepth)
	se, sok := ref.StdSkip(in)
	oracleOK = (sok == (end >= 0)) && (!sok || se == end)
	if end >= 0 {
		nontrivial = end < len(in)
	} else {
		nontrivial = errPos > ref.SkipWS(in, 0)
	}
	return
}

func c02Compare(what string, p int, err error, end int) error {
	if (err == nil) != (end >= 0) {
		return fmt.Errorf("SkipValue(in, %s) err=%v p=%d; reference and encoding/json: success=%v end=%d", what, err, p, end >= 0, end)
	}
	if err == nil && p != end {
		return fmt.Errorf("SkipValue(in, %s) p=%d; reference and encoding/json say the value ends at %d", what, p, end)
	}
	return nil
}

// CheckC02: (success, offset) of SkipValue equals the reference pair for buffer nil /
// fresh / used (primed, then the case's prior Steps).
func CheckC02(c *core.Case) error {
	if c.Kind == "cold" {
		return checkCold(c)
	}
	in := inputOf(c)
	end, ok, _ := skipOracle(in)
	if !ok {
		return errOracle
	}
	p, err := rjson.SkipValue(in, nil)
	if e := c02Compare("nil", p, err, end); e != nil {
		return e
	}
	p, err = rjson.SkipValue(in, &rjson.Buffer{})
	if e := c02Compare("fresh buffer", p, err, end); e != nil {
		return e
	}
	b := replayBuffer(c)
	if isFreshHistory(c) {
		// the generators reuse one scratch slice for consecutive inputs (same first byte, new
		// contents): replay the epoch the same way, every document written over the previous one
		in = aliasInto(historyArena(c), in)
		for _, s := range c.Steps {
			rjson.SkipValue(aliasInto(historyArena(c), s.In), b)
		}
		in = aliasInto(historyArena(c), c.In)
	} else {
		for _, s := range c.Steps {
			rjson.SkipValue(s.In, b)
		}
	}
	p, err = rjson.SkipValue(in, b)
	return c02Compare("used buffer", p, err, end)
}

type c02State struct {
	r    *core.Rec
	used *rjson.Buffer
	hist history
	prim *rjson.Buffer
}

func (s *c02State) input(kind string, in []byte) error {
	end, ok, nt := skipOracle(in)
	key := core.Hash(in)
	if !ok {
		s.r.Inconclusive("reference model and json.Decoder disagree", &core.Case{Prop: "C02", Kind: kind, In: append([]byte(nil), in...)})
		return nil
	}
	s.r.Eval(key, nt)
	if nt && s.r.WantSample(key) {
		s.r.SampleInput(key, kind, in, "ref_end", end)
	}
	switch {
	case end < 0:
		s.r.Label("ref.error")
	case end == len(in):
		s.r.Label("ref.ok.whole")
	default:
		s.r.Label("ref.ok.trailing")
	}
	p, err := rjson.SkipValue(in, nil)
	if e := c02Compare("nil", p, err, end); e != nil {
		return e
	}
	if s.used == nil {
		s.used = s.hist.next()
	}
	p, err = rjson.SkipValue(in, s.used)
	if e := c02Compare("long-lived buffer", p, err, end); e != nil {
		return &caseErr{&core.Case{Prop: "C02", Kind: kind, In: append([]byte(nil), in...), Steps: s.hist.steps("C02"), Strs: s.hist.marker()}, e}
	}
	s.hist.add(in)
	if s.hist.full() {
		s.used = s.hist.next()
	}
	return nil
}
