package props

import "testing"

func TestC02(t *testing.T) {
	runProp(t, "C02", func(e *env) {
		e.coldStage(1, 31)
		s := &c02State{r: e.r, prim: primedBuffer()}
		e.feed(feedOpts{counts: 2, streams: true, shortlexQ: 4, shortlexT: 6, sweepQ: 800, sweepT: 40000, nestQ: 150, nestT: 4000, indentQ: 40, indentT: 1500, numShapes: 4, strRuns: true, tokenSweepQ: 60, templateSweep: true, amplify: true,
			mutQ: 60000, mutT: 2000000, nextByte: true, alignment: true, boundaries: true}, s.input)
	})
}
