package props

import (
	"os"
	"testing"

	"verifharness/core"
	"verifharness/gen"
)

// fuzzTargets maps a property to a byte-level target: the plain check of that property on a
// case decoded from the fuzzer's bytes. The semantic oracle is inside the target.
var fuzzTargets = map[string]func(data []byte) error{
	"C01": func(d []byte) error { return CheckC01(&core.Case{In: d}) },
	"C02": func(d []byte) error { return CheckC02(&core.Case{In: d}) },
	"C03": func(d []byte) error { return CheckC03(&core.Case{In: d}) },
	"C05": func(d []byte) error { return CheckC05(&core.Case{In: d, Ints: []int64{-1}}) },
	"C06": func(d []byte) error { return CheckC06(&core.Case{In: d}) },
	"C07": func(d []byte) error {
		c := fuzzDecodeC07(d)
		return CheckC07(c)
	},
	"C08": func(d []byte) error { return CheckC08(fuzzDecodeC08(d)) },
	"C10": func(d []byte) error { return CheckC10(fuzzDecodeC10(d)) },
	"C11": func(d []byte) error { return CheckC11(&core.Case{In: d}) },
	"C13": func(d []byte) error { return CheckC13(&core.Case{In: d}) },
}

// fuzzDecodeC07: byte 0 = traversal kind and buffer config, byte 1 = strategy bits, rest = document.
func fuzzDecodeC07(d []byte) *core.Case {
	if len(d) < 2 {
		return &core.Case{In: d, Ints: []int64{'[', 0, 0}}
	}
	return &core.Case{In: d[2:], Ints: []int64{int64("[{"[d[0]&1]), int64(d[0]>>1) % 3, int64(d[1]) * 0x0101010101010101}}
}

// fuzzDecodeC08: byte 0 bit 0 = full decoder, bits 1.. = vector length; following bytes = choice vector; rest = document.
func fuzzDecodeC08(d []byte) *core.Case {
	if len(d) < 1 {
		return &core.Case{In: d, Ints: []int64{1}}
	}
	n := int(d[0]>>1) % 12
	if n > len(d)-1 {
		n = len(d) - 1
	}
	ints := []int64{int64(d[0] & 1)}
	for _, b := range d[1 : 1+n] {
		ints = append(ints, int64(b))
	}
	return &core.Case{In: d[1+n:], Ints: ints}
}

// fuzzDecodeC10: byte 0 selects: even = every entry point on the rest; odd = hostile handler
// (byte 1: kind / re-entrant / buffer; byte 2: number of codes; codes: < pool size = pool
// selector, otherwise a small signed literal offset).
func fuzzDecodeC10(d []byte) *core.Case {
	if len(d) < 3 || d[0]&1 == 0 {
		if len(d) > 0 {
			return &core.Case{Kind: "bytes", In: d[1:], Ints: []int64{-1, int64(d[0]>>1) % 3}}
		}
		return &core.Case{Kind: "bytes", In: d}
	}
	n := int(d[2]) % 8
	if n > len(d)-3 {
		n = len(d) - 3
	}
	ints := []int64{int64("[{"[d[1]&1]), int64(d[1] >> 1 & 1), int64(d[1]>>2) % 3}
	for _, b := range d[3 : 3+n] {
		if int(b) < hostilePoolSize {
			ints = append(ints, int64(b))
		} else {
			ints = append(ints, int64(int8(b)))
		}
	}
	return &core.Case{Kind: "handler", In: d[3+n:], Ints: ints}
}

// FuzzProp is the native coverage-guided fuzz target (thorough tier only). The property is
// selected by VERIF_FUZZPROP. A crasher only counts after the plain check reproduces it.
func FuzzProp(f *testing.F) {
	prop := os.Getenv("VERIF_FUZZPROP")
	target := fuzzTargets[prop]
	if target == nil {
		f.Skip("VERIF_FUZZPROP not set to a property with a fuzz target")
	}
	// starting corpus: hostile constants and a few small valid inputs
	seeds := []string{"", "null", "true", "[]", "{}", `{"a":[1,2.5e3,"x\n😀",null,true],"b":{"c":{}}}`, `[[[[1]]]]`, `"é\\\""`, "-0.0e-5", "1e400",
		"[1,", `{"a":`, "\x00", "\xff\xfe", `"𐀀"`, "123456789012345678901234567890", " \t\r\n1 ", `[{"k":[{"k":[]}]}]`, "\x01[\"abc\"]", "\x03\x02\x14[1,\"abc\"]", "\x05\x01\x07{\"a\":\"b\"}"}
	for _, s := range seeds {
		f.Add([]byte(s))
	}
	for _, n := range gen.Nums[:12] {
		f.Add([]byte(n))
	}
	f.Fuzz(func(t *testing.T, data []byte) {
		if len(data) > 1<<16 {
			return
		}
		err := core.Catch(func() error { return target(data) })
		if err != nil && err != errOracle {
			t.Fatalf("%s: %v", prop, err)
		}
	})
}

// TestFuzzCrasher replays a crasher file written by the native fuzzer through the plain
// check (decoded exactly as the fuzz target decodes it) and converts it to a replay case.
func TestFuzzCrasher(t *testing.T) {
	prop, path, out := os.Getenv("VERIF_FUZZPROP"), os.Getenv("VERIF_FUZZ_CRASHER"), os.Getenv("VERIF_FUZZ_CASE_OUT")
	if prop == "" || path == "" {
		t.Skip("not a crasher replay")
	}
	data, err := readGoFuzzCorpusFile(path)
	if err != nil {
		t.Fatal(err)
	}
	var c *core.Case
	switch prop {
	case "C07":
		c = fuzzDecodeC07(data)
	case "C08":
		c = fuzzDecodeC08(data)
	case "C10":
		c = fuzzDecodeC10(data)
	case "C05":
		c = &core.Case{In: data, Ints: []int64{-1}}
	default:
		c = &core.Case{In: data}
	}
	c.Prop = prop
	if c.Kind == "" {
		c.Kind = "fuzz"
	}
	if err := core.WriteCase(out, c); err != nil {
		t.Fatal(err)
	}
}
