package props

import (
	"errors"
	"fmt"

	"verifharness/core"

	"github.com/willabides/rjson"
)

func init() { Checks["C14"] = CheckC14 }

// C14 step encoding (core.Case): Kind = function name; In = document;
// Ints = [handler mode, k, strategy bits, re-entry mode, repeat count, input aliasing (0 fresh slice, 1 arena in place, 2 arena at an offset)]
//   handler mode: 0 decline, 1 strategy bits (decline/exact), 2 abort with an error at call k
//   re-entry mode (what the handler does on its data WITH THE ENCLOSING CALL'S BUFFER before
//   answering): 0 nothing, 1 SkipValue, 2 Valid, 3 SkipValueFast, 4 nested traversal of
//   container members (recursively, same mode), 5 all of them

var c14Funcs = []string{"Valid", "SkipValue", "SkipValueFast", "HandleArrayValues", "HandleObjectValues"}

var errAbort = errors.New("handler abort")

// c14Outcome is everything observable about one call.
type c14Outcome struct {
	errNil  bool
	errText string // the error's text: a failing call's outcome is its offset and its error
	p       int
	verdict bool
	trace   []int64 // handler call trace incl. the results of re-entrant calls
}

func (a c14Outcome) equal(b c14Outcome) bool {
	if a.errNil != b.errNil || a.verdict != b.verdict || a.p != b.p || a.errText != b.errText || len(a.trace) != len(b.trace) {
		return false
	}
	for i := range a.trace {
		if a.trace[i] != b.trace[i] {
			return false
		}
	}
	return true
}

type c14Handler struct {
	buf    *rjson.Buffer
	mode   int64
	k      int64
	bits   uint64
	re     int64
	calls  int64
	trace  *[]int64
	limit  int64
	nested int
}

func (h *c14Handler) note(xs ...int64) { *h.trace = append(*h.trace, xs...) }

func (h *c14Handler) handle(data []byte) (int, error) {
	call := h.calls
	h.calls++
	h.note(-1, int64(len(data))) // call marker + where (suffix length identifies the offset)
	if h.calls > h.limit {
		return 0, errTooManyCalls
	}
	if h.re != 0 {
		h.reenter(data)
	}
	switch h.mode {
	case 2:
		if call == h.k {
			return 0, errAbort
		}
		return 0, nil
	case 1:
		if h.bits>>(uint(call)%64)&1 == 1 {
			return exactEnd(data), nil
		}
	}
	return 0, nil
}

func (h *c14Handler) reenter(data []byte) {
	re := h.re
	if re == 1 || re == 5 {
		p, err := rjson.SkipValue(data, h.buf)
		h.note(-2, int64(p), errCode(err))
	}
	if re == 2 || re == 5 {
		h.note(-3, b2i(rjson.Valid(data, h.buf)))
	}
	if re == 3 || re == 5 {
		p, err := rjson.SkipValueFast(data, h.buf)
		h.note(-4, int64(p), errCode(err))
	}
	if (re == 4 || re == 5) && len(data) > 0 && h.nested < 6 {
		inner := &c14Handler{buf: h.buf, mode: 0, re: h.re, trace: h.trace, limit: int64(len(data)) + 1, nested: h.nested + 1}
		if h.mode == 2 { // inner traversals abort too, at their own first call
			inner.mode, inner.k = 2, 0
		}
		switch data[0] {
		case '[':
			p, err := rjson.HandleArrayValues(data, inner, h.buf)
			h.note(-5, int64(p), errCode(err))
		case '{':
			p, err := rjson.HandleObjectValues(data, inner, h.buf)
			h.note(-6, int64(p), errCode(err))
		}
	}
}

func (h *c14Handler) HandleArrayValue(data []byte) (int, error) { return h.handle(data) }
func (h *c14Handler) HandleObjectValue(key, data []byte) (int, error) {
	h.note(-7, int64(len(key)), int64(core.Hash(key)>>1))
	p, err := h.handle(data)
	// the name as it reads after the handler has used (and possibly re-entered with) the Buffer
	h.note(-8, int64(core.Hash(key)>>1))
	return p, err
}

// errCode folds an error into the trace: 1 for nil, otherwise a hash of its text.
func errCode(err error) int64 {
	if err == nil {
		return 1
	}
	return -int64(core.Hash([]byte(err.Error())) >> 2)
}

// c14Call runs one step with the given buffer (nil = the model) on the given input slice.
func c14Call(step *core.Case, buf *rjson.Buffer, in []byte) (out c14Outcome) {
	ints := append(append([]int64(nil), step.Ints...), 0, 0, 0, 0)
	h := &c14Handler{buf: buf, mode: ints[0], k: ints[1], bits: uint64(ints[2]), re: ints[3], trace: &out.trace, limit: int64(len(in)) + 1}
	var err error
	switch step.Kind {
	case "Valid":
		out.verdict = rjson.Valid(in, buf)
		out.errNil = true
	case "SkipValue":
		out.p, err = rjson.SkipValue(in, buf)
		out.errNil = err == nil
	case "SkipValueFast":
		out.p, err = rjson.SkipValueFast(in, buf)
		out.errNil = err == nil
	case "HandleArrayValues":
		out.p, err = rjson.HandleArrayValues(in, h, buf)
		out.errNil = err == nil
	case "HandleObjectValues":
		out.p, err = rjson.HandleObjectValues(in, h, buf)
		out.errNil = err == nil
	default:
		panic("unknown C14 step kind " + step.Kind)
	}
	if err != nil {
		out.errText = err.Error()
	}
	return out
}

// c14Runner owns the one Buffer of a history.
type c14Runner struct {
	buf rjson.Buffer
	// arena: the caller's read buffer. With Ints[5] = 1 the step's document is written into the
	// arena IN PLACE (same first byte as the previous such document) and the library sees
	// arena[:len]: a Buffer that remembers anything about an input by slice identity is exposed
	// by the usual "read the next message into the same []byte" pattern. Ints[5] = 2: the
	// document is a sub-slice of the arena starting at a later offset.
	arena   []byte
	grew    bool // an earlier call nested >= 8 deep (stack growth)
	aborted bool // an earlier call ended in an error / false verdict / handler abort
}

type c14StepInfo struct {
	nontrivial bool
	reentrant  bool
}

func (r *c14Runner) step(step *core.Case) (info c14StepInfo, err error) {
	perr := core.Catch(func() error {
		ints := append(append([]int64(nil), step.Ints...), 0, 0, 0, 0, 0, 0)
		want := c14Call(step, nil, append([]byte(nil), step.In...))
		in := append([]byte(nil), step.In...)
		if ints[5] != 0 {
			if r.arena == nil {
				r.arena = make([]byte, 1<<16)
			}
			if len(step.In) <= len(r.arena)/2 {
				off := 0
				if ints[5] == 2 {
					off = 3
				}
				n := copy(r.arena[off:], step.In)
				in = r.arena[off : off+n]
			}
		}
		got := c14Call(step, &r.buf, in)
		// Ints[4] = repeat count: the same call made again and again on the same Buffer (a
		// counter that leaks on some exit path needs thousands of calls to matter); every
		// repetition must give the model's outcome
		for rep := int64(1); rep < ints[4] && got.equal(want); rep++ {
			got = c14Call(step, &r.buf, in)
			if !got.equal(want) {
				return fmt.Errorf("%s with the reused Buffer, repetition %d of %d: (err %q, p %d, verdict %v, trace %v); with no buffer: (err %q, p %d, verdict %v, trace %v)",
					step.Kind, rep+1, ints[4], got.errText, got.p, got.verdict, clip(got.trace), want.errText, want.p, want.verdict, clip(want.trace))
			}
		}
		handlerFn := step.Kind == "HandleArrayValues" || step.Kind == "HandleObjectValues"
		info.reentrant = handlerFn && ints[3] != 0 && len(got.trace) > 0
		info.nontrivial = (r.grew && r.aborted) || info.reentrant
		if !got.equal(want) {
			return fmt.Errorf("%s with the reused Buffer: (err %q, p %d, verdict %v, trace %v); with no buffer: (err %q, p %d, verdict %v, trace %v)",
				step.Kind, got.errText, got.p, got.verdict, clip(got.trace), want.errText, want.p, want.verdict, clip(want.trace))
		}
		depth := 0
		for _, c := range step.In {
			if c == '[' || c == '{' {
				depth++
			}
		}
		if depth >= 8 {
			r.grew = true
		}
		if !want.errNil || (step.Kind == "Valid" && !want.verdict) {
			r.aborted = true
		}
		return nil
	})
	return info, perr
}

func clip(t []int64) []int64 {
	if len(t) > 40 {
		return t[:40]
	}
	return t
}

// CheckC14 replays a whole history on one fresh Buffer.
func CheckC14(c *core.Case) error {
	var r c14Runner
	for i := range c.Steps {
		if _, err := r.step(&c.Steps[i]); err != nil {
			return fmt.Errorf("step %d: %w", i, err)
		}
	}
	return nil
}
