package props

import (
	"encoding/json"
	"fmt"

	"verifharness/core"
	"verifharness/gen"
	"verifharness/ref"

	"github.com/willabides/rjson"
)

func init() { Checks["C01"] = CheckC01 }

// primeDocs put a Buffer into a "previously used" state: deep then shallow, a failing
// document, a depth-limit exit.
var primeDocs = [][]byte{
	gen.NestSpec{Depth: 70, Pattern: "ao", Close: 70, Bottom: "1"}.Build(),
	[]byte(`[1,{"a":[2,}]`),
	gen.NestSpec{Depth: 10001, Pattern: "a", Close: 0}.Build(),
	[]byte(`{"a":[[[1]]]}`),
	[]byte(`[[[[`),
}

func primedBuffer() *rjson.Buffer {
	b := &rjson.Buffer{}
	for _, d := range primeDocs {
		// a panic while priming is not reported here: the cases themselves will show it
		_ = core.Catch(func() error { rjson.Valid(d, b); return nil })
	}
	return b
}

// history keeps the recent inputs a long-lived buffer was used on, so that a
// history-dependent failure can be written down as a concrete case.
type history struct {
	ring    [8][]byte
	n       int
	deepest []byte
	deepLen int
}

func (h *history) add(in []byte) {
	h.ring[h.n%len(h.ring)] = append(h.ring[h.n%len(h.ring)][:0], in...)
	h.n++
	if len(in) > h.deepLen && len(in) >= 64 && (in[0] == '[' || in[0] == '{') {
		h.deepest, h.deepLen = append([]byte(nil), in...), len(in)
	}
}

func (h *history) steps(prop string) []core.Case {
	var out []core.Case
	if h.deepest != nil {
		out = append(out, core.Case{Prop: prop, Kind: "prior", In: h.deepest})
	}
	k := h.n
	if k > len(h.ring) {
		k = len(h.ring)
	}
	for i := h.n - k; i < h.n; i++ {
		out = append(out, core.Case{Prop: prop, Kind: "prior", In: append([]byte(nil), h.ring[i%len(h.ring)]...)})
	}
	return out
}

// validOracle returns the reference verdict, whether the stdlib agrees, and whether the
// case is non-trivial (valid, or rejected at least one byte into a token).
func validOracle(in []byte) (want, oracleOK, nontrivial bool) {
	end, errPos := ref.SkipPos(in, ref.MaxDepth)
	want = end >= 0 && ref.SkipWS(in, end) == len(in)
	oracleOK = json.Valid(in) == want
	first := ref.SkipWS(in, 0)
	if end >= 0 {
		nontrivial = true // a complete first value was scanned (valid, or trailing garbage)
	} else {
		nontrivial = errPos > first
	}
	return
}

// CheckC01: Valid(in, buf) equals the reference verdict for buf nil / fresh / previously
// used (primed deterministically, then used on the case's prior Steps).
func CheckC01(c *core.Case) error {
	in := []byte(c.In)
	want, ok, _ := validOracle(in)
	if !ok {
		return errOracle
	}
	if got := rjson.Valid(in, nil); got != want {
		return fmt.Errorf("Valid(in, nil) = %v, reference and encoding/json say %v", got, want)
	}
	if got := rjson.Valid(in, &rjson.Buffer{}); got != want {
		return fmt.Errorf("Valid(in, fresh buffer) = %v, reference and encoding/json say %v", got, want)
	}
	b := primedBuffer()
	for _, s := range c.Steps {
		rjson.Valid(s.In, b)
	}
	if got := rjson.Valid(in, b); got != want {
		return fmt.Errorf("Valid(in, used buffer) = %v, reference and encoding/json say %v (nil buffer gives %v)", got, want, rjson.Valid(in, nil))
	}
	return nil
}

var errOracle = fmt.Errorf("oracle disagreement: reference model and encoding/json differ (not a violation)")

type c01State struct {
	r    *core.Rec
	used rjson.Buffer
	hist history
	prim *rjson.Buffer
}

func (s *c01State) input(kind string, in []byte) error {
	want, ok, nt := validOracle(in)
	key := core.Hash(in)
	if !ok {
		s.r.Inconclusive("reference model and json.Valid disagree", &core.Case{Prop: "C01", Kind: kind, In: append([]byte(nil), in...)})
		return nil
	}
	s.r.Eval(key, nt)
	if nt && s.r.WantSample(key) {
		s.r.SampleInput(key, kind, in, "valid", want)
	}
	if want {
		s.r.Label("verdict.valid")
	} else {
		s.r.Label("verdict.invalid")
	}
	if got := rjson.Valid(in, nil); got != want {
		return fmt.Errorf("Valid(in, nil) = %v, reference and encoding/json say %v", got, want)
	}
	if got := rjson.Valid(in, &rjson.Buffer{}); got != want {
		return fmt.Errorf("Valid(in, fresh buffer) = %v, reference and encoding/json say %v", got, want)
	}
	if got := rjson.Valid(in, s.prim); got != want {
		return fmt.Errorf("Valid(in, primed buffer) = %v, reference and encoding/json say %v", got, want)
	}
	got := rjson.Valid(in, &s.used)
	if got != want {
		c := &core.Case{Prop: "C01", Kind: kind, In: append([]byte(nil), in...), Steps: s.hist.steps("C01")}
		err := fmt.Errorf("Valid(in, long-lived buffer) = %v, reference and encoding/json say %v", got, want)
		return &caseErr{c, err}
	}
	s.hist.add(in)
	return nil
}
