package props

import (
	"encoding/json"
	"fmt"

	"verifharness/core"
	"verifharness/gen"
	"verifharness/ref"

	"github.com/willabides/rjson"
)

func init() { Checks["C01"] = CheckC01 }

// primeDocs put a Buffer into a "previously used" state: deep then shallow, a failing
// document, a depth-limit exit.
var primeDocs = [][]byte{
	gen.NestSpec{Depth: 70, Pattern: "ao", Close: 70, Bottom: "1"}.Build(),
	[]byte(`[1,{"a":[2,}]`),
	gen.NestSpec{Depth: 10001, Pattern: "a", Close: 0}.Build(),
	[]byte(`{"a":[[[1]]]}`),
	[]byte(`[[[[`),
}

var primeTraversals = [][]byte{
	gen.NestSpec{Depth: 12000, Pattern: "a", Close: 12000, Bottom: "1"}.Build(),
	gen.NestSpec{Depth: 12000, Pattern: "oa", Close: 12000, Bottom: "1"}.Build(),
	[]byte(`[1,{"a":[2,{"b":[3]}]}]`),
}

func primedBuffer() *rjson.Buffer {
	b := &rjson.Buffer{}
	for _, d := range primeDocs {
		// a panic while priming is not reported here: the cases themselves will show it
		_ = core.Catch(func() error { rjson.Valid(d, b); return nil })
	}
	// "previously used" includes use by the traversal functions, which have no depth limit of
	// their own and can therefore grow the shared stack further than the skip functions would
	for _, d := range primeTraversals {
		_ = core.Catch(func() error {
			rjson.HandleArrayValues(d, &nopHandler{}, b)
			rjson.HandleObjectValues(d, &nopHandler{}, b)
			rjson.SkipValueFast(d, b)
			return nil
		})
	}
	return b
}

// history is the complete list of inputs a long-lived buffer has been used on since it
// was last replaced by a fresh one (an "epoch" of at most 256 inputs / 2 MiB), so that a
// history-dependent failure can be written down as a concrete, exactly reproducible case.
type history struct {
	docs   [][]byte
	bytes  int
	primed bool // the epoch's buffer started out deterministically primed (else brand new)
	epochs int
}

// next starts a new epoch: one epoch in eight starts from a primed buffer, the others from a brand-new one.
func (h *history) next() *rjson.Buffer {
	h.docs, h.bytes = h.docs[:0], 0
	h.epochs++
	h.primed = h.epochs%8 == 1 // priming replays 12 000-deep documents: one epoch in eight
	if h.primed {
		return primedBuffer()
	}
	return &rjson.Buffer{}
}

func (h *history) marker() []string {
	if h.primed {
		return []string{primedHistory}
	}
	return []string{freshHistory}
}

func (h *history) add(in []byte) {
	h.docs = append(h.docs, append([]byte(nil), in...))
	h.bytes += len(in)
}

func (h *history) full() bool { return len(h.docs) >= 256 || h.bytes >= 2<<20 }

func (h *history) reset() { h.docs, h.bytes = h.docs[:0], 0 }

// freshHistory marks a case whose Steps are to be replayed on a brand-new Buffer (not on
// the deterministically primed one).
const freshHistory = "fresh-buffer-history"

// primedHistory: as freshHistory, but the epoch's buffer starts out primed.
const primedHistory = "primed-buffer-history"

func (h *history) steps(prop string) []core.Case {
	out := make([]core.Case, 0, len(h.docs))
	for _, d := range h.docs {
		out = append(out, core.Case{Prop: prop, Kind: "prior", In: d})
	}
	return out
}

func isFreshHistory(c *core.Case) bool {
	for _, s := range c.Strs {
		if s == freshHistory || s == primedHistory {
			return true
		}
	}
	return false
}

var historyArenas = map[*core.Case][]byte{}

// historyArena is one scratch slice per replayed case, large enough for its longest document.
func historyArena(c *core.Case) []byte {
	if a, ok := historyArenas[c]; ok {
		return a
	}
	n := len(c.In)
	for _, s := range c.Steps {
		if len(s.In) > n {
			n = len(s.In)
		}
	}
	a := make([]byte, n+1)
	historyArenas[c] = a
	return a
}

func aliasInto(arena, doc []byte) []byte {
	n := copy(arena, doc)
	return arena[:n]
}

// replayBuffer builds the used buffer of a replay: primed, or fresh for epoch histories.
func replayBuffer(c *core.Case) *rjson.Buffer {
	for _, s := range c.Strs {
		if s == freshHistory {
			return &rjson.Buffer{}
		}
	}
	return primedBuffer() // primedHistory, and plain cases
}

// validOracle returns the reference verdict, whether the stdlib agrees, and whether the
// case is non-trivial (valid, or rejected at least one byte into a token).
func validOracle(in []byte) (want, oracleOK, nontrivial bool) {
	end, errPos := ref.SkipPos(in, ref.MaxDepth)
	want = end >= 0 && ref.SkipWS(in, end) == len(in)
	oracleOK = json.Valid(in) == want
	first := ref.SkipWS(in, 0)
	if end >= 0 {
		nontrivial = true // a complete first value was scanned (valid, or trailing garbage)
	} else {
		nontrivial = errPos > first
	}
	return
}

// CheckC01: Valid(in, buf) equals the reference verdict for buf nil / fresh / previously
// used (primed deterministically, then used on the case's prior Steps).
func CheckC01(c *core.Case) error {
	if c.Kind == "cold" {
		return checkCold(c)
	}
	in := inputOf(c)
	want, ok, _ := validOracle(in)
	if !ok {
		return errOracle
	}
	if got := rjson.Valid(in, nil); got != want {
		return fmt.Errorf("Valid(in, nil) = %v, reference and encoding/json say %v", got, want)
	}
	if got := rjson.Valid(in, &rjson.Buffer{}); got != want {
		return fmt.Errorf("Valid(in, fresh buffer) = %v, reference and encoding/json say %v", got, want)
	}
	b := replayBuffer(c)
	if isFreshHistory(c) {
		// the generators reuse one scratch slice for consecutive inputs (same first byte, new
		// contents): replay the epoch the same way, every document written over the previous one
		in = aliasInto(historyArena(c), in)
		for _, s := range c.Steps {
			rjson.Valid(aliasInto(historyArena(c), s.In), b)
		}
		in = aliasInto(historyArena(c), c.In)
	} else {
		for _, s := range c.Steps {
			rjson.Valid(s.In, b)
		}
	}
	if got := rjson.Valid(in, b); got != want {
		return fmt.Errorf("Valid(in, used buffer) = %v, reference and encoding/json say %v (nil buffer gives %v)", got, want, rjson.Valid(in, nil))
	}
	return nil
}

var errOracle = fmt.Errorf("oracle disagreement: reference model and encoding/json differ (not a violation)")

type c01State struct {
	r    *core.Rec
	used *rjson.Buffer
	hist history
	prim *rjson.Buffer // unused in the hot loop since epochs alternate fresh/primed starts
}

func (s *c01State) input(kind string, in []byte) error {
	want, ok, nt := validOracle(in)
	key := core.Hash(in)
	if !ok {
		s.r.Inconclusive("reference model and json.Valid disagree", &core.Case{Prop: "C01", Kind: kind, In: append([]byte(nil), in...)})
		return nil
	}
	s.r.Eval(key, nt)
	if nt && s.r.WantSample(key) {
		s.r.SampleInput(key, kind, in, "valid", want)
	}
	if want {
		s.r.Label("verdict.valid")
	} else {
		s.r.Label("verdict.invalid")
	}
	if got := rjson.Valid(in, nil); got != want {
		return fmt.Errorf("Valid(in, nil) = %v, reference and encoding/json say %v", got, want)
	}
	if got := rjson.Valid(in, &rjson.Buffer{}); got != want {
		return fmt.Errorf("Valid(in, fresh buffer) = %v, reference and encoding/json say %v", got, want)
	}
	if s.used == nil {
		s.used = s.hist.next()
	}
	got := rjson.Valid(in, s.used)
	if got != want {
		c := &core.Case{Prop: "C01", Kind: kind, In: append([]byte(nil), in...), Steps: s.hist.steps("C01"), Strs: s.hist.marker()}
		err := fmt.Errorf("Valid(in, long-lived buffer) = %v, reference and encoding/json say %v", got, want)
		return &caseErr{c, err}
	}
	s.hist.add(in)
	if s.hist.full() {
		s.used = s.hist.next()
	}
	return nil
}
