package props

import (
	"fmt"
	"math"
	"runtime"
	"sync"
	"sync/atomic"

	"verifharness/core"
	"verifharness/ref"

	"github.com/willabides/rjson"
)

func init() { Checks["C18"] = CheckC18 }

// c18Res is the observable result of one operation (comparable with ==).
type c18Res struct {
	p   int
	err bool
	v   string // canonical rendering of the value
}

// private state of one goroutine: nothing here is shared
type c18Priv struct {
	buf rjson.Buffer
	vr  rjson.ValueReader
	dst []byte
	scr []byte
}

func renderTree(v interface{}) string {
	switch x := v.(type) {
	case float64:
		return fmt.Sprintf("f%x", math.Float64bits(x))
	case string:
		return fmt.Sprintf("s%q", x)
	case []interface{}:
		s := "["
		for _, e := range x {
			s += renderTree(e) + ","
		}
		return s + "]"
	case map[string]interface{}:
		// order-independent: sum of hashes of rendered entries
		var h uint64
		for k, e := range x {
			h += core.Hash([]byte(k), []byte(renderTree(e)))
		}
		return fmt.Sprintf("{%d:%x}", len(x), h)
	}
	return fmt.Sprintf("%v", v)
}

const c18NumOps = 36

// c18Op runs operation fn on the shared read-only input d with private state.
func c18Op(fn int, d []byte, pv *c18Priv) c18Res {
	switch fn % c18NumOps {
	case 0:
		return c18Res{v: fmt.Sprint(rjson.Valid(d, &pv.buf))}
	case 1:
		p, err := rjson.SkipValue(d, &pv.buf)
		return c18Res{p: p, err: err != nil}
	case 2:
		p, err := rjson.SkipValueFast(d, &pv.buf)
		return c18Res{p: p, err: err != nil}
	case 3:
		v, p, err := pv.vr.ReadValue(d)
		return c18Res{p: p, err: err != nil, v: renderTree(v)}
	case 4:
		v, p, err := rjson.ReadValue(d)
		return c18Res{p: p, err: err != nil, v: renderTree(v)}
	case 5:
		v, p, err := rjson.ReadFloat64(d)
		return c18Res{p: p, err: err != nil, v: renderTree(v)}
	case 6:
		v, p, err := rjson.ReadString(d, nil)
		return c18Res{p: p, err: err != nil, v: v}
	case 7:
		v, p, err := rjson.ReadInt64(d)
		return c18Res{p: p, err: err != nil, v: fmt.Sprint(v)}
	case 8:
		n := 0
		p, err := rjson.HandleArrayValues(d, rjson.ArrayValueHandlerFunc(func(x []byte) (int, error) {
			n++
			return rjson.SkipValue(x, &pv.buf)
		}), &pv.buf)
		return c18Res{p: p, err: err != nil, v: fmt.Sprint(n)}
	case 9:
		n := 0
		p, err := rjson.HandleObjectValues(d, rjson.ObjectValueHandlerFunc(func(k, x []byte) (int, error) { n += len(k) + 1; return 0, nil }), &pv.buf)
		return c18Res{p: p, err: err != nil, v: fmt.Sprint(n)}
	case 10:
		return c18Res{v: rjson.StdLibCompatibleString(string(d))}
	case 11:
		tt, p, err := rjson.NextTokenType(d)
		return c18Res{p: p, err: err != nil, v: tt.String()}
	case 12:
		v, p, err := rjson.ReadStringBytes(d, pv.dst[:0])
		pv.dst = v[:0:cap(v)]
		return c18Res{p: p, err: err != nil, v: string(v)}
	case 13:
		v, p, err := rjson.ReadString(d, &pv.scr)
		return c18Res{p: p, err: err != nil, v: v}
	case 14:
		v, p, err := rjson.ReadObject(d)
		return c18Res{p: p, err: err != nil, v: renderTree(map[string]interface{}(v))}
	case 15:
		v, p, err := pv.vr.ReadArray(d)
		return c18Res{p: p, err: err != nil, v: renderTree([]interface{}(v))}
	case 16:
		v, p, err := rjson.ReadUint64(d)
		return c18Res{p: p, err: err != nil, v: fmt.Sprint(v)}
	case 17:
		v, p, err := rjson.ReadBool(d)
		return c18Res{p: p, err: err != nil, v: fmt.Sprint(v)}
	case 18:
		p, err := rjson.ReadNull(d)
		return c18Res{p: p, err: err != nil}
	case 19:
		b, p, err := rjson.NextToken(d)
		return c18Res{p: p, err: err != nil, v: string(b)}
	case 20:
		var f float64 = 1
		p, err := rjson.DecodeFloat64(d, &f)
		return c18Res{p: p, err: err != nil, v: renderTree(f)}
	case 21:
		var s = "init"
		p, err := rjson.DecodeString(d, &s, &pv.scr)
		return c18Res{p: p, err: err != nil, v: s}
	case 22:
		v, p, err := rjson.UnescapeStringContent(d, pv.dst[:0])
		if err == nil {
			pv.dst = v[:0:cap(v)]
		}
		return c18Res{p: p, err: err != nil, v: string(v)}
	case 23:
		v, p, err := rjson.ReadInt32(d)
		return c18Res{p: p, err: err != nil, v: fmt.Sprint(v)}
	case 24:
		v, _, err := rjson.ReadValue(d)
		if err != nil {
			return c18Res{err: true}
		}
		// when two keys of one object collide after replacement the helper's result depends on
		// map iteration order (C17 excludes that case): the helper is still run, not compared
		_, collide := ref.MapStrings(v, ref.ReplaceString)
		var out interface{} = v
		switch x := v.(type) {
		case []interface{}:
			out = rjson.StdLibCompatibleSlice(x)
		case map[string]interface{}:
			out = rjson.StdLibCompatibleMap(x)
		}
		if collide {
			return c18Res{v: "colliding keys: not compared"}
		}
		return c18Res{v: renderTree(out)}
	case 25:
		v := rjson.StdLibCompatibleStringBytes(d, pv.dst[:0])
		pv.dst = v[:0:cap(v)]
		return c18Res{v: string(v)}
	case 26:
		var b bool
		p, err := rjson.DecodeBool(d, &b)
		return c18Res{p: p, err: err != nil, v: fmt.Sprint(b)}
	case 27:
		var i int64 = 9
		p, err := rjson.DecodeInt64(d, &i)
		return c18Res{p: p, err: err != nil, v: fmt.Sprint(i)}
	case 28:
		v, p, err := pv.vr.ReadObject(d)
		return c18Res{p: p, err: err != nil, v: renderTree(map[string]interface{}(v))}
	case 29:
		v, p, err := rjson.ReadArray(d)
		return c18Res{p: p, err: err != nil, v: renderTree([]interface{}(v))}
	case 30:
		return c18Res{v: fmt.Sprint(rjson.Valid(d, nil))}
	case 31:
		p, err := rjson.SkipValue(d, nil)
		return c18Res{p: p, err: err != nil}
	case 32:
		p, err := rjson.SkipValueFast(d, nil)
		return c18Res{p: p, err: err != nil}
	case 33:
		n := 0
		p, err := rjson.HandleArrayValues(d, rjson.ArrayValueHandlerFunc(func(x []byte) (int, error) { n++; return rjson.SkipValue(x, nil) }), nil)
		return c18Res{p: p, err: err != nil, v: fmt.Sprint(n)}
	case 34:
		n := 0
		p, err := rjson.HandleObjectValues(d, rjson.ObjectValueHandlerFunc(func(k, x []byte) (int, error) { n += len(k) + 1; return 0, nil }), nil)
		return c18Res{p: p, err: err != nil, v: fmt.Sprint(n)}
	default:
		// a hand-written recursive walk without any Buffer: one traversal in progress per
		// nesting level of the document, on every goroutine at once
		w := &c18Walker{}
		p, err := w.walk(d)
		return c18Res{p: p, err: err != nil, v: fmt.Sprint(w.nodes)}
	}
}

type c18Walker struct{ nodes int }

func (w *c18Walker) walk(d []byte) (int, error) {
	tt, p, err := rjson.NextTokenType(d)
	if err != nil {
		return 0, err
	}
	w.nodes++
	switch tt {
	case rjson.ArrayStartType:
		return rjson.HandleArrayValues(d, w, nil)
	case rjson.ObjectStartType:
		return rjson.HandleObjectValues(d, w, nil)
	}
	_ = p
	return rjson.SkipValue(d, nil)
}

func (w *c18Walker) HandleArrayValue(d []byte) (int, error)     { return w.walk(d) }
func (w *c18Walker) HandleObjectValue(_, d []byte) (int, error) { return w.walk(d) }

// c18Round runs a workload: Steps = shared inputs, Ints = [goroutines, gomaxprocs, stride,
// fn0, doc0, fn1, doc1, ...]. Expected results are computed sequentially first; then the
// goroutines run rotations of the workload on the same input slices from a common barrier.
func c18Round(c *core.Case) (overlap bool, err error) {
	if len(c.Ints) < 5 || len(c.Steps) == 0 {
		return false, fmt.Errorf("bad case")
	}
	// The shared inputs are ADJACENT views of one backing array (records cut out of one read
	// buffer by plain slicing): docs[i] ends exactly where docs[i+1] begins and its capacity
	// extends over everything behind it, so a callee that touches memory past len(data) - even
	// transiently - writes into another goroutine's read-only input.
	docs := make([][]byte, len(c.Steps))
	snaps := make([][]byte, len(c.Steps))
	total := 0
	for i := range c.Steps {
		total += len(c.Steps[i].In)
	}
	arena := make([]byte, 0, total+16)
	for i := range c.Steps {
		arena = append(arena, c.Steps[i].In...)
	}
	arena = append(arena, "   \n\t 1 "...) // whitespace behind the last record too
	off := 0
	for i := range c.Steps {
		if c.Steps[i].Kind == "prefix" && len(c.Steps[i].Ints) >= 2 && int(c.Steps[i].Ints[0]) < i && docs[int(c.Steps[i].Ints[0])] != nil {
			// a shorter view of an earlier input that starts at the SAME byte (a message and its
			// header, a document and a truncation of it): same address, different length
			base := docs[int(c.Steps[i].Ints[0])]
			k := int(c.Steps[i].Ints[1])
			if k < 0 || k > len(base) {
				k = len(base)
			}
			docs[i] = base[:k]
			snaps[i] = append([]byte(nil), docs[i]...)
			continue
		}
		n := len(c.Steps[i].In)
		docs[i] = arena[off : off+n] // capacity deliberately not clipped
		snaps[i] = append([]byte(nil), docs[i]...)
		off += n
	}
	ng, procs, stride := int(c.Ints[0]), int(c.Ints[1]), int(c.Ints[2])
	type op struct{ fn, doc int }
	var ops []op
	for i := 3; i+1 < len(c.Ints); i += 2 {
		ops = append(ops, op{int(c.Ints[i]), int(c.Ints[i+1]) % len(docs)})
	}
	// The concurrent phase runs FIRST and the sequential reference run afterwards, so that in
	// a fresh process lazily initialised package state is first touched concurrently.
	old := runtime.GOMAXPROCS(procs)
	defer runtime.GOMAXPROCS(old)
	inflight := make([]atomic.Int32, len(ops))
	var overlapped atomic.Bool
	results := make([][]c18Res, ng)
	var wg sync.WaitGroup
	start := make(chan struct{})
	for g := 0; g < ng; g++ {
		wg.Add(1)
		results[g] = make([]c18Res, len(ops))
		go func(g int) {
			defer wg.Done()
			var pv c18Priv
			<-start
			for k := 0; k < len(ops); k++ {
				i := (k*stride + g*13) % len(ops)
				if inflight[i].Add(1) >= 2 {
					overlapped.Store(true)
				}
				results[g][i] = c18Op(ops[i].fn, docs[ops[i].doc], &pv)
				inflight[i].Add(-1)
				if (k+g)%7 == 0 {
					runtime.Gosched()
				}
			}
		}(g)
	}
	close(start)
	wg.Wait()
	want := make([]c18Res, len(ops))
	{
		var pv c18Priv
		for i, o := range ops {
			want[i] = c18Op(o.fn, docs[o.doc], &pv)
		}
	}
	for g := 0; g < ng; g++ {
		for k := 0; k < len(ops); k++ {
			i := (k*stride + g*13) % len(ops) // only the operations this goroutine ran
			if got := results[g][i]; got != want[i] {
				return overlapped.Load(), fmt.Errorf("goroutine %d: operation %d on shared input %.200q returned (p=%d err=%v %.120q); run alone it returns (p=%d err=%v %.120q)",
					g, ops[i].fn%c18NumOps, docs[ops[i].doc], got.p, got.err, got.v, want[i].p, want[i].err, want[i].v)
			}
		}
	}
	for i := range docs {
		if string(docs[i]) != string(snaps[i]) {
			return overlapped.Load(), fmt.Errorf("shared read-only input %d was modified", i)
		}
	}
	return overlapped.Load(), nil
}

// CheckC18 re-runs the workload several times (schedules are sampled, not owned).
func CheckC18(c *core.Case) error {
	for i := 0; i < 20; i++ {
		if _, err := c18Round(c); err != nil {
			return err
		}
	}
	return nil
}

var _ = ref.MaxDepth
