package ref

import (
	"math"
	"strconv"
	"strings"
	"testing"

	"pgregory.net/rapid"
)

// ExactFloat agrees with strconv on literals outside strconv's two weak families.
func TestExactFloatAgreesWithStrconv(t *testing.T) {
	rapid.Check(t, func(rt *rapid.T) {
		var sb strings.Builder
		if rapid.Bool().Draw(rt, "neg") {
			sb.WriteByte('-')
		}
		nd := rapid.IntRange(1, 60).Draw(rt, "nd")
		for i := 0; i < nd; i++ {
			d := rapid.IntRange(0, 9).Draw(rt, "d")
			if i == 0 && nd > 1 && d == 0 {
				d = 1
			}
			sb.WriteByte(byte('0' + d))
		}
		if rapid.Bool().Draw(rt, "frac") {
			sb.WriteByte('.')
			for i, n := 0, rapid.IntRange(1, 40).Draw(rt, "nf"); i < n; i++ {
				sb.WriteByte(byte('0' + rapid.IntRange(0, 9).Draw(rt, "f")))
			}
		}
		if rapid.Bool().Draw(rt, "exp") {
			sb.WriteString("e" + strconv.Itoa(rapid.IntRange(-420, 420).Draw(rt, "e")))
		}
		lit := sb.String()
		want, err := strconv.ParseFloat(lit, 64)
		got, ovf := ExactFloat([]byte(lit))
		if ovf != (err != nil) || (!ovf && math.Float64bits(got) != math.Float64bits(want)) {
			rt.Fatalf("%s: exact %v (overflow %v), strconv %v (%v)", lit, got, ovf, want, err)
		}
	})
}

func TestExactFloatKnownDivergences(t *testing.T) {
	for lit, want := range map[string]float64{
		"1" + strings.Repeat("0", 12000) + "e-12000":            1,
		"9007199254740993" + strings.Repeat("0", 900) + "e-900": 9007199254740992,
		"0." + strings.Repeat("0", 123455) + "1e123456":         1,
		"-0." + strings.Repeat("0", 123455) + "1e123456":        -1,
		"4.9406564584124654e-324":                               5e-324,
		"2.4703282292062327e-324":                               0,
		"2.4703282292062328e-324":                               5e-324,
		"1.7976931348623158e308":                                math.MaxFloat64,
		"-0e999999":                                             math.Copysign(0, -1),
		"1e-999999":                                             0,
	} {
		got, ovf := Float([]byte(lit))
		if ovf || math.Float64bits(got) != math.Float64bits(want) {
			t.Errorf("%.40s...: got %v overflow %v, want %v", lit, got, ovf, want)
		}
	}
	if _, ovf := Float([]byte("1.7976931348623159e308")); !ovf {
		t.Error("overflow not reported")
	}
	if _, ovf := Float([]byte("1e999999")); !ovf {
		t.Error("overflow not reported for 1e999999")
	}
}
