package ref

import (
	"bytes"
	"encoding/json"
	"math"
)

// Equal compares two decoded trees exactly: float bits (so -0 != 0), string bytes,
// nil-ness of containers, map keys.
func Equal(a, b interface{}) bool {
	switch x := a.(type) {
	case nil:
		return b == nil
	case bool:
		y, ok := b.(bool)
		return ok && x == y
	case float64:
		y, ok := b.(float64)
		return ok && math.Float64bits(x) == math.Float64bits(y)
	case string:
		y, ok := b.(string)
		return ok && x == y
	case []interface{}:
		y, ok := b.([]interface{})
		if !ok || len(x) != len(y) || (x == nil) != (y == nil) {
			return false
		}
		for i := range x {
			if !Equal(x[i], y[i]) {
				return false
			}
		}
		return true
	case map[string]interface{}:
		y, ok := b.(map[string]interface{})
		if !ok || len(x) != len(y) || (x == nil) != (y == nil) {
			return false
		}
		for k, v := range x {
			w, ok := y[k]
			if !ok || !Equal(v, w) {
				return false
			}
		}
		return true
	}
	return false
}

// Copy makes a deep copy of a tree (preserving nil-ness of containers).
func Copy(v interface{}) interface{} {
	switch x := v.(type) {
	case []interface{}:
		if x == nil {
			return x
		}
		o := make([]interface{}, len(x))
		for i := range x {
			o[i] = Copy(x[i])
		}
		return o
	case map[string]interface{}:
		if x == nil {
			return x
		}
		o := make(map[string]interface{}, len(x))
		for k, e := range x {
			o[k] = Copy(e)
		}
		return o
	}
	return v
}

// MapStrings returns a copy of the tree with f applied to every string value and map key.
// collide reports whether two keys of one object became equal.
func MapStrings(v interface{}, f func(string) string) (out interface{}, collide bool) {
	switch x := v.(type) {
	case string:
		return f(x), false
	case []interface{}:
		if x == nil {
			return x, false
		}
		o := make([]interface{}, len(x))
		for i := range x {
			var c bool
			o[i], c = MapStrings(x[i], f)
			collide = collide || c
		}
		return o, collide
	case map[string]interface{}:
		if x == nil {
			return x, false
		}
		o := make(map[string]interface{}, len(x))
		for k, e := range x {
			nv, c := MapStrings(e, f)
			collide = collide || c
			nk := f(k)
			if _, dup := o[nk]; dup {
				collide = true
			}
			o[nk] = nv
		}
		return o, collide
	}
	return v, false
}

// ReplaceString is ReplaceInvalidUTF8 on strings.
func ReplaceString(s string) string {
	if !HasInvalidUTF8([]byte(s)) {
		return s
	}
	return string(ReplaceInvalidUTF8([]byte(s)))
}

// Stats describes the shape of a tree (used for non-triviality rules).
type Stats struct {
	Depth      int
	MaxMembers int
	Containers int
	Strings    int
}

func TreeStats(v interface{}) (s Stats) {
	var walk func(v interface{}, d int)
	walk = func(v interface{}, d int) {
		switch x := v.(type) {
		case string:
			s.Strings++
		case []interface{}:
			s.Containers++
			if d+1 > s.Depth {
				s.Depth = d + 1
			}
			if len(x) > s.MaxMembers {
				s.MaxMembers = len(x)
			}
			for _, e := range x {
				walk(e, d+1)
			}
		case map[string]interface{}:
			s.Containers++
			if d+1 > s.Depth {
				s.Depth = d + 1
			}
			if len(x) > s.MaxMembers {
				s.MaxMembers = len(x)
			}
			for _, e := range x {
				walk(e, d+1)
			}
		}
	}
	walk(v, 0)
	return s
}

// StdSkip is the (success, offset) pair of encoding/json's streaming decoder for the first
// value of d: Token for scalars, Decode for containers (the same construction rjson's own
// differential tests use).
func StdSkip(d []byte) (end int, ok bool) {
	dec := json.NewDecoder(bytes.NewReader(d))
	dec.UseNumber()
	tkn, err := dec.Token()
	if err != nil {
		return 0, false
	}
	if _, isDelim := tkn.(json.Delim); !isDelim {
		return int(dec.InputOffset()), true
	}
	dec = json.NewDecoder(bytes.NewReader(d))
	dec.UseNumber()
	var v interface{}
	if err = dec.Decode(&v); err != nil {
		return 0, false
	}
	return int(dec.InputOffset()), true
}

// StdDecode is encoding/json's tree for the first value of d.
func StdDecode(d []byte) (v interface{}, end int, err error) {
	dec := json.NewDecoder(bytes.NewReader(d))
	err = dec.Decode(&v)
	return v, int(dec.InputOffset()), err
}

// TreeStatsOfDoc reports whether the document's first value contains a string with an
// escape or a container (used as a non-triviality rule for ownership checks).
func TreeStatsOfDoc(d []byte) bool {
	for _, c := range d {
		if c == '\\' || c == '[' || c == '{' {
			return true
		}
	}
	return false
}
