// Package ref is an independent reference model of RFC 8259 written from the RFC's
// grammar. It imports nothing from rjson and shares no code with it.
package ref

import (
	"errors"
	"math/big"
	"unicode/utf16"
	"unicode/utf8"
)

// MaxDepth is the documented nesting limit of rjson's validating functions.
const MaxDepth = 10000

func IsWS(b byte) bool    { return b == ' ' || b == '\t' || b == '\r' || b == '\n' }
func isDigit(b byte) bool { return b >= '0' && b <= '9' }
func isHex(b byte) bool {
	return isDigit(b) || (b >= 'a' && b <= 'f') || (b >= 'A' && b <= 'F')
}

// SkipWS returns the index of the first non-whitespace byte at or after i.
func SkipWS(d []byte, i int) int {
	for i < len(d) && IsWS(d[i]) {
		i++
	}
	return i
}

// String scans a string token starting at d[i]=='"'. Returns the index after the closing
// quote, or -1 (errPos receives the index of the offending byte / len(d) at EOF).
func String(d []byte, i int) int {
	e, _ := stringPos(d, i)
	return e
}

func stringPos(d []byte, i int) (end, errPos int) {
	if i >= len(d) || d[i] != '"' {
		return -1, i
	}
	i++
	for i < len(d) {
		c := d[i]
		switch {
		case c == '"':
			return i + 1, 0
		case c < 0x20:
			return -1, i
		case c == '\\':
			i++
			if i >= len(d) {
				return -1, i
			}
			switch d[i] {
			case '"', '\\', '/', 'b', 'f', 'n', 'r', 't':
				i++
			case 'u':
				for k := 1; k <= 4; k++ {
					if i+k >= len(d) {
						return -1, len(d)
					}
					if !isHex(d[i+k]) {
						return -1, i + k
					}
				}
				i += 5
			default:
				return -1, i
			}
		default:
			i++
		}
	}
	return -1, len(d)
}

// Number scans a number token by maximal munch at d[i]. Returns end or -1. Once '.' or
// 'e' has been consumed the token is committed: "1." "1e" "1e+" are errors.
func Number(d []byte, i int) int {
	e, _ := numberPos(d, i)
	return e
}

func numberPos(d []byte, i int) (end, errPos int) {
	if i < len(d) && d[i] == '-' {
		i++
	}
	if i >= len(d) {
		return -1, i
	}
	switch {
	case d[i] == '0':
		i++
	case d[i] >= '1' && d[i] <= '9':
		for i < len(d) && isDigit(d[i]) {
			i++
		}
	default:
		return -1, i
	}
	if i < len(d) && d[i] == '.' {
		i++
		if i >= len(d) || !isDigit(d[i]) {
			return -1, i
		}
		for i < len(d) && isDigit(d[i]) {
			i++
		}
	}
	if i < len(d) && (d[i] == 'e' || d[i] == 'E') {
		i++
		if i < len(d) && (d[i] == '+' || d[i] == '-') {
			i++
		}
		if i >= len(d) || !isDigit(d[i]) {
			return -1, i
		}
		for i < len(d) && isDigit(d[i]) {
			i++
		}
	}
	return i, 0
}

func lit(d []byte, i int, l string) (end, errPos int) {
	for k := 0; k < len(l); k++ {
		if i+k >= len(d) {
			return -1, len(d)
		}
		if d[i+k] != l[k] {
			return -1, i + k
		}
	}
	return i + len(l), 0
}

// Skip returns the index just after the first JSON value of d (after optional leading
// whitespace), or -1. Iterative with an explicit bracket stack; a container opened at
// nesting level maxDepth+1 is rejected.
func Skip(d []byte, maxDepth int) int {
	e, _ := SkipPos(d, maxDepth)
	return e
}

// SkipPos is Skip that also reports where the input was rejected (len(d) for EOF).
func SkipPos(d []byte, maxDepth int) (end, errPos int) {
	i := 0
	var stack []byte // '[' or '{'
	for {
		i = SkipWS(d, i)
		if i >= len(d) {
			return -1, len(d)
		}
		c := d[i]
		opened := false
		var ep int
		switch {
		case c == '[' || c == '{':
			if len(stack) == maxDepth {
				return -1, i
			}
			stack = append(stack, c)
			i++
			opened = true
		case c == '"':
			i, ep = stringPos(d, i)
		case c == '-' || isDigit(c):
			i, ep = numberPos(d, i)
		case c == 't':
			i, ep = lit(d, i, "true")
		case c == 'f':
			i, ep = lit(d, i, "false")
		case c == 'n':
			i, ep = lit(d, i, "null")
		default:
			return -1, i
		}
		if i < 0 {
			return -1, ep
		}
		if opened {
			i = SkipWS(d, i)
			if i >= len(d) {
				return -1, len(d)
			}
			top := stack[len(stack)-1]
			if top == '[' {
				if d[i] == ']' {
					i++
					stack = stack[:len(stack)-1]
					goto afterValue
				}
				continue
			}
			if d[i] == '}' {
				i++
				stack = stack[:len(stack)-1]
				goto afterValue
			}
			if i, ep = key(d, i); i < 0 {
				return -1, ep
			}
			continue
		}
	afterValue:
		for {
			if len(stack) == 0 {
				return i, 0
			}
			i = SkipWS(d, i)
			if i >= len(d) {
				return -1, len(d)
			}
			top := stack[len(stack)-1]
			if d[i] == ',' {
				i++
				if top == '{' {
					i = SkipWS(d, i)
					if i, ep = key(d, i); i < 0 {
						return -1, ep
					}
				}
				break
			}
			if (top == '[' && d[i] == ']') || (top == '{' && d[i] == '}') {
				i++
				stack = stack[:len(stack)-1]
				continue
			}
			return -1, i
		}
	}
}

// key parses `"key" ws* :` at i; returns the index after ':' or -1.
func key(d []byte, i int) (end, errPos int) {
	var ep int
	i, ep = stringPos(d, i)
	if i < 0 {
		return -1, ep
	}
	i = SkipWS(d, i)
	if i >= len(d) {
		return -1, len(d)
	}
	if d[i] != ':' {
		return -1, i
	}
	return i + 1, 0
}

// Valid: exactly one value surrounded by optional whitespace, nested <= MaxDepth.
func Valid(d []byte) bool {
	i := Skip(d, MaxDepth)
	if i < 0 {
		return false
	}
	return SkipWS(d, i) == len(d)
}

// Depth returns the maximum nesting depth of the first value of d (precondition:
// Skip(d, huge) >= 0). Brackets inside strings are not counted.
func Depth(d []byte) int {
	depth, max := 0, 0
	for i := 0; i < len(d); i++ {
		switch d[i] {
		case '"':
			e := String(d, i)
			if e < 0 {
				return max
			}
			i = e - 1
		case '[', '{':
			depth++
			if depth > max {
				max = depth
			}
		case ']', '}':
			depth--
			if depth == 0 {
				return max
			}
		}
	}
	return max
}

// Unescape decodes the content between the quotes of a well-formed JSON string. Raw bytes
// are copied unchanged (valid UTF-8 or not).
func Unescape(c []byte) []byte {
	return UnescapeInto(make([]byte, 0, len(c)), c)
}

// UnescapeInto appends the unescaped content to out (no allocation when out has room).
func UnescapeInto(out, c []byte) []byte {
	for i := 0; i < len(c); {
		if c[i] != '\\' {
			out = append(out, c[i])
			i++
			continue
		}
		switch c[i+1] {
		case '"', '\\', '/':
			out = append(out, c[i+1])
			i += 2
		case 'b':
			out = append(out, '\b')
			i += 2
		case 'f':
			out = append(out, '\f')
			i += 2
		case 'n':
			out = append(out, '\n')
			i += 2
		case 'r':
			out = append(out, '\r')
			i += 2
		case 't':
			out = append(out, '\t')
			i += 2
		case 'u':
			u := hex4(c[i+2 : i+6])
			i += 6
			r := rune(u)
			if u >= 0xD800 && u <= 0xDBFF {
				r = 0xFFFD
				if i+6 <= len(c) && c[i] == '\\' && c[i+1] == 'u' {
					if lo, ok := hex4ok(c[i+2 : i+6]); ok && lo >= 0xDC00 && lo <= 0xDFFF {
						r = utf16.DecodeRune(rune(u), rune(lo))
						i += 6
					}
				}
			} else if u >= 0xDC00 && u <= 0xDFFF {
				r = 0xFFFD
			}
			out = utf8.AppendRune(out, r)
		default:
			panic("ref.Unescape: not the content of a well-formed string")
		}
	}
	return out
}

func hex4(b []byte) int { v, _ := hex4ok(b); return v }
func hex4ok(b []byte) (int, bool) {
	v := 0
	for _, c := range b {
		switch {
		case c >= '0' && c <= '9':
			v = v*16 + int(c-'0')
		case c >= 'a' && c <= 'f':
			v = v*16 + int(c-'a') + 10
		case c >= 'A' && c <= 'F':
			v = v*16 + int(c-'A') + 10
		default:
			return 0, false
		}
	}
	return v, true
}

// ErrRange is returned by Decode when a number does not fit a finite float64.
var ErrRange = errors.New("number out of float64 range")

// Decode decodes the first value of d into the tree encoding/json would produce for
// interface{} except that raw bytes are preserved. Precondition: Skip(d, huge) >= 0.
// Iterative (explicit stack), so any depth is fine.
func Decode(d []byte) (v interface{}, end int, err error) {
	type frame struct {
		arr   []interface{}
		obj   map[string]interface{}
		key   string
		isObj bool
	}
	var stack []frame
	i := SkipWS(d, 0)
	for {
		// parse a value at i
		var val interface{}
		c := d[i]
		switch {
		case c == '"':
			e := String(d, i)
			val = string(Unescape(d[i+1 : e-1]))
			i = e
		case c == 't':
			val, i = true, i+4
		case c == 'f':
			val, i = false, i+5
		case c == 'n':
			val, i = nil, i+4
		case c == '[':
			i = SkipWS(d, i+1)
			if d[i] == ']' {
				val, i = []interface{}{}, i+1
				break
			}
			stack = append(stack, frame{arr: []interface{}{}})
			continue
		case c == '{':
			i = SkipWS(d, i+1)
			if d[i] == '}' {
				val, i = map[string]interface{}{}, i+1
				break
			}
			ke := String(d, i)
			k := string(Unescape(d[i+1 : ke-1]))
			i = SkipWS(d, ke)
			i = SkipWS(d, i+1)
			stack = append(stack, frame{obj: map[string]interface{}{}, key: k, isObj: true})
			continue
		default:
			e := Number(d, i)
			f, overflow := Float(d[i:e])
			if overflow {
				return nil, 0, ErrRange
			}
			val, i = f, e
		}
		// attach val upward
		for {
			if len(stack) == 0 {
				return val, i, nil
			}
			f := &stack[len(stack)-1]
			if f.isObj {
				f.obj[f.key] = val
			} else {
				f.arr = append(f.arr, val)
			}
			i = SkipWS(d, i)
			if d[i] == ',' {
				i = SkipWS(d, i+1)
				if f.isObj {
					ke := String(d, i)
					f.key = string(Unescape(d[i+1 : ke-1]))
					i = SkipWS(d, ke)
					i = SkipWS(d, i+1)
				}
				break
			}
			// closing bracket
			i++
			if f.isObj {
				val = f.obj
			} else {
				val = f.arr
			}
			stack = stack[:len(stack)-1]
		}
	}
}

// Member describes one member of the first array/object of a document.
type Member struct {
	KeyStart, KeyEnd int // raw key content between the quotes (objects only)
	Start, End       int // first byte of the value, index just after it
}

// Members lists the members of the top-level container of d. Precondition: the first
// value of d is a well-formed array or object.
func Members(d []byte) (ms []Member, end int) {
	i := SkipWS(d, 0)
	open := d[i]
	i = SkipWS(d, i+1)
	if d[i] == ']' || d[i] == '}' {
		return nil, i + 1
	}
	for {
		var m Member
		i = SkipWS(d, i)
		if open == '{' {
			ke := String(d, i)
			m.KeyStart, m.KeyEnd = i+1, ke-1
			i = SkipWS(d, ke)
			i = SkipWS(d, i+1)
		}
		m.Start = i
		m.End = i + Skip(d[i:], 1<<30)
		ms = append(ms, m)
		i = SkipWS(d, m.End)
		if d[i] == ']' || d[i] == '}' {
			return ms, i + 1
		}
		i++
	}
}

// IntToken inspects the first token of d (after whitespace). ok reports whether it is a
// well-formed JSON number token; isInt whether it has neither fraction nor exponent; val
// its exact value when isInt; end the index after the token.
func IntToken(d []byte) (ok, isInt bool, val *big.Int, end int) {
	i := SkipWS(d, 0)
	e := Number(d, i)
	if e < 0 {
		return false, false, nil, 0
	}
	for _, c := range d[i:e] {
		if c == '.' || c == 'e' || c == 'E' {
			return true, false, nil, e
		}
	}
	// big.Int.SetString is quadratic: a literal of more than 1001 significant digits (only
	// its sign and the fact that it is beyond every machine type matter to any caller) is
	// represented by +-10^1001
	tok := d[i:e]
	neg := len(tok) > 0 && tok[0] == '-'
	digs := tok
	if neg {
		digs = digs[1:]
	}
	for len(digs) > 1 && digs[0] == '0' {
		digs = digs[1:]
	}
	if len(digs) > 1001 {
		v := new(big.Int).Exp(big.NewInt(10), big.NewInt(1001), nil)
		if neg {
			v.Neg(v)
		}
		return true, true, v, e
	}
	v, good := new(big.Int).SetString(string(d[i:e]), 10)
	if !good {
		panic("ref.IntToken: big.Int rejected an integer token")
	}
	return true, true, v, e
}

// Token classes of the JSON token table.
const (
	TInvalid = iota
	TNull
	TString
	TNumber
	TTrue
	TFalse
	TObjectStart
	TObjectEnd
	TArrayStart
	TArrayEnd
	TComma
	TColon
)

// Classify returns the token class of a byte per the JSON grammar.
func Classify(b byte) int {
	switch {
	case b == 'n':
		return TNull
	case b == '"':
		return TString
	case b == '-' || isDigit(b):
		return TNumber
	case b == 't':
		return TTrue
	case b == 'f':
		return TFalse
	case b == '{':
		return TObjectStart
	case b == '}':
		return TObjectEnd
	case b == '[':
		return TArrayStart
	case b == ']':
		return TArrayEnd
	case b == ',':
		return TComma
	case b == ':':
		return TColon
	}
	return TInvalid
}

// wellFormedLen returns the length of the well-formed UTF-8 sequence starting at b[0] per
// Unicode Table 3-7, or 0 if none starts there.
func wellFormedLen(b []byte) int {
	if len(b) == 0 {
		return 0
	}
	c := b[0]
	cont := func(i int, lo, hi byte) bool { return len(b) > i && b[i] >= lo && b[i] <= hi }
	switch {
	case c <= 0x7F:
		return 1
	case c >= 0xC2 && c <= 0xDF:
		if cont(1, 0x80, 0xBF) {
			return 2
		}
	case c == 0xE0:
		if cont(1, 0xA0, 0xBF) && cont(2, 0x80, 0xBF) {
			return 3
		}
	case (c >= 0xE1 && c <= 0xEC) || c == 0xEE || c == 0xEF:
		if cont(1, 0x80, 0xBF) && cont(2, 0x80, 0xBF) {
			return 3
		}
	case c == 0xED:
		if cont(1, 0x80, 0x9F) && cont(2, 0x80, 0xBF) {
			return 3
		}
	case c == 0xF0:
		if cont(1, 0x90, 0xBF) && cont(2, 0x80, 0xBF) && cont(3, 0x80, 0xBF) {
			return 4
		}
	case c >= 0xF1 && c <= 0xF3:
		if cont(1, 0x80, 0xBF) && cont(2, 0x80, 0xBF) && cont(3, 0x80, 0xBF) {
			return 4
		}
	case c == 0xF4:
		if cont(1, 0x80, 0x8F) && cont(2, 0x80, 0xBF) && cont(3, 0x80, 0xBF) {
			return 4
		}
	}
	return 0
}

// ReplaceInvalidUTF8 replaces each byte that does not begin a well-formed UTF-8 sequence
// by U+FFFD (EF BF BD) and copies everything else.
func ReplaceInvalidUTF8(b []byte) []byte {
	out := make([]byte, 0, len(b))
	for i := 0; i < len(b); {
		if n := wellFormedLen(b[i:]); n > 0 {
			out = append(out, b[i:i+n]...)
			i += n
		} else {
			out = append(out, 0xEF, 0xBF, 0xBD)
			i++
		}
	}
	return out
}

// HasInvalidUTF8 reports whether b contains a byte outside any well-formed sequence.
func HasInvalidUTF8(b []byte) bool {
	for i := 0; i < len(b); {
		n := wellFormedLen(b[i:])
		if n == 0 {
			return true
		}
		i += n
	}
	return false
}
