package ref

import (
	"math"
	"math/big"
	"strconv"
)

// strconv.ParseFloat (Go 1.23 and 1.26 alike) is not correctly rounded on two families of
// literals, and rjson's float parser started as a copy of it:
//   - more than 800 significant integer digits when the fast paths give up: the digits beyond
//     the 800-digit buffer are dropped without moving the decimal point
//     ("1" + 12000 zeros + "e-12000" parses as 0);
//   - exponents of six or more digits: only the first five are read
//     ("0." + 123455 zeros + "1e123456" parses as 0).
// RiskyNumber recognises (a superset of) those literals; Float uses exact rational
// arithmetic for them and strconv otherwise.

// RiskyNumber reports whether tok (a JSON number token) may be mis-scaled by strconv.
func RiskyNumber(tok []byte) bool {
	i := 0
	if i < len(tok) && tok[i] == '-' {
		i++
	}
	n := 0
	for ; i < len(tok) && tok[i] >= '0' && tok[i] <= '9'; i++ {
		n++
	}
	if n > 800 {
		return true
	}
	for ; i < len(tok); i++ {
		if tok[i] == 'e' || tok[i] == 'E' {
			i++
			if i < len(tok) && (tok[i] == '+' || tok[i] == '-') {
				i++
			}
			for i < len(tok) && tok[i] == '0' {
				i++
			}
			return len(tok)-i >= 6
		}
	}
	return false
}

// HasRiskyNumber is a conservative document-level version: a run of more than 800 digits,
// or e/E followed by an optional sign and at least six digits, anywhere in d.
func HasRiskyNumber(d []byte) bool {
	run := 0
	for i := 0; i < len(d); i++ {
		c := d[i]
		if c >= '0' && c <= '9' {
			run++
			if run > 800 {
				return true
			}
			continue
		}
		run = 0
		if c == 'e' || c == 'E' {
			j := i + 1
			if j < len(d) && (d[j] == '+' || d[j] == '-') {
				j++
			}
			k := j
			for k < len(d) && d[k] >= '0' && d[k] <= '9' {
				k++
			}
			if k-j >= 6 {
				return true
			}
		}
	}
	return false
}

// Float is the float64 nearest to the JSON number token tok (ties to even, sign of zero
// kept); overflow reports a rounded magnitude beyond the largest finite float64.
func Float(tok []byte) (f float64, overflow bool) {
	if RiskyNumber(tok) {
		return ExactFloat(tok)
	}
	f, err := strconv.ParseFloat(string(tok), 64)
	return f, err != nil
}

// ExactFloat rounds the exact decimal value of tok with rational arithmetic.
func ExactFloat(tok []byte) (f float64, overflow bool) {
	i := 0
	neg := false
	if i < len(tok) && tok[i] == '-' {
		neg, i = true, 1
	}
	var digits []byte
	point := 0 // number of digits before the decimal point
	seenDot := false
	for ; i < len(tok); i++ {
		c := tok[i]
		if c == '.' {
			seenDot = true
			continue
		}
		if c < '0' || c > '9' {
			break
		}
		digits = append(digits, c)
		if !seenDot {
			point++
		}
	}
	// exponent, saturated far beyond anything digits can compensate
	exp := int64(0)
	if i < len(tok) && (tok[i] == 'e' || tok[i] == 'E') {
		i++
		esign := int64(1)
		if i < len(tok) && (tok[i] == '+' || tok[i] == '-') {
			if tok[i] == '-' {
				esign = -1
			}
			i++
		}
		for ; i < len(tok) && tok[i] >= '0' && tok[i] <= '9'; i++ {
			if exp < 1<<50 {
				exp = exp*10 + int64(tok[i]-'0')
			}
		}
		exp *= esign
	}
	// strip leading and trailing zeros: value = 0.digits * 10^e10
	lz := 0
	for lz < len(digits) && digits[lz] == '0' {
		lz++
	}
	digits = digits[lz:]
	e10 := int64(point-lz) + exp
	for len(digits) > 0 && digits[len(digits)-1] == '0' {
		digits = digits[:len(digits)-1]
	}
	sign := func(x float64) float64 {
		if neg {
			return -x
		}
		return x
	}
	switch {
	case len(digits) == 0 || e10 < -400:
		return sign(0), false // zero, or below half the least subnormal (2^-1075 > 1e-324)
	case e10 > 400:
		return sign(math.Inf(1)), true
	}
	num, _ := new(big.Int).SetString(string(digits), 10)
	k := e10 - int64(len(digits)) // value = num * 10^k
	r := new(big.Rat)
	if k >= 0 {
		r.SetInt(num.Mul(num, new(big.Int).Exp(big.NewInt(10), big.NewInt(k), nil)))
	} else {
		r.SetFrac(num, new(big.Int).Exp(big.NewInt(10), big.NewInt(-k), nil))
	}
	f, _ = r.Float64()
	if math.IsInf(f, 0) {
		return sign(math.Inf(1)), true
	}
	return sign(f), false
}
