// Package core holds what every property check shares: the concrete, serialisable Case
// model, the evidence recorder, replay I/O, the watchdog and the run configuration.
package core

import (
	"bytes"
	"encoding/hex"
	"encoding/json"
	"fmt"
	"os"
	"path/filepath"
	"sort"
	"strconv"
	"strings"
	"sync"
	"sync/atomic"
	"time"
)

// HexBytes is a byte slice that serialises as a hex string (inputs are arbitrary bytes).
type HexBytes []byte

func (h HexBytes) MarshalJSON() ([]byte, error) {
	return json.Marshal(hex.EncodeToString(h))
}

func (h *HexBytes) UnmarshalJSON(b []byte) error {
	var s string
	if err := json.Unmarshal(b, &s); err != nil {
		return err
	}
	d, err := hex.DecodeString(s)
	if err != nil {
		return err
	}
	*h = d
	return nil
}

// Case is one concrete, fully determined case of a property: no randomness, no library.
// Its interpretation (Kind, Ints, Bufs, Steps) belongs to the property named in Prop.
type Case struct {
	Prop    string     `json:"prop"`
	Kind    string     `json:"kind,omitempty"`
	In      HexBytes   `json:"in_hex,omitempty"`
	Preview string     `json:"in_preview,omitempty"` // informational, derived from In
	Ints    []int64    `json:"ints,omitempty"`
	Bufs    []HexBytes `json:"bufs_hex,omitempty"`
	Strs    []string   `json:"strs,omitempty"`
	Steps   []Case     `json:"steps,omitempty"`
	Note    string     `json:"note,omitempty"`
}

// Preview renders bytes for humans (truncated, quoted).
func Preview(b []byte) string {
	const max = 160
	if len(b) > max {
		return strconv.Quote(string(b[:max/2])) + "…(" + strconv.Itoa(len(b)) + " bytes)…" + strconv.Quote(string(b[len(b)-max/2:]))
	}
	return strconv.Quote(string(b))
}

func (c *Case) fill() {
	if c.In != nil && c.Preview == "" {
		c.Preview = Preview(c.In)
	}
	for i := range c.Steps {
		c.Steps[i].fill()
	}
}

// Config is the run configuration, taken from the environment set by the driver.
type Config struct {
	Prop     string
	Tier     string // quick | thorough
	Seed     uint64 // never 0
	Shard    int
	Shards   int
	OutDir   string // where result / replay / hash files go
	Replay   string // replay dir for violation files
	Scale    float64
	Watchdog time.Duration
}

func LoadConfig(prop string) Config {
	c := Config{Prop: prop, Tier: "quick", Seed: 1, Shards: 1, Scale: 1, Watchdog: 60 * time.Second}
	if v := os.Getenv("VERIF_TIER"); v != "" {
		c.Tier = v
	}
	if v := os.Getenv("VERIF_SEED"); v != "" {
		// any integer is accepted; 0 is remapped to 1 (0 means "random" to rapid)
		if n, err := strconv.ParseInt(v, 0, 64); err == nil {
			c.Seed = uint64(n)
		} else if u, err := strconv.ParseUint(v, 0, 64); err == nil {
			c.Seed = u
		}
		if c.Seed == 0 {
			c.Seed = 1
		}
	}
	if v := os.Getenv("VERIF_SHARD"); v != "" {
		fmt.Sscanf(v, "%d/%d", &c.Shard, &c.Shards)
		if c.Shards < 1 {
			c.Shards = 1
		}
	}
	c.OutDir = os.Getenv("VERIF_OUT")
	if c.OutDir == "" {
		c.OutDir = os.TempDir()
	}
	c.Replay = os.Getenv("VERIF_REPLAYDIR")
	if c.Replay == "" {
		c.Replay = c.OutDir
	}
	if v := os.Getenv("VERIF_SCALE"); v != "" {
		if f, err := strconv.ParseFloat(v, 64); err == nil && f > 0 {
			c.Scale = f
		}
	}
	if v := os.Getenv("VERIF_WATCHDOG_S"); v != "" {
		if f, err := strconv.ParseFloat(v, 64); err == nil && f > 0 {
			c.Watchdog = time.Duration(f * float64(time.Second))
		}
	}
	return c
}

// Thorough reports whether the thorough tier is selected.
func (c Config) Thorough() bool { return c.Tier == "thorough" }

// N scales a case count: q for quick, t for thorough (t is the total over all shards),
// times VERIF_SCALE, divided over shards; at least 1.
func (c Config) N(q, t int) int {
	n := q
	if c.Thorough() {
		n = t
	}
	n = int(float64(n) * c.Scale)
	n = (n + c.Shards - 1) / c.Shards
	if n < 1 {
		n = 1
	}
	return n
}

// Pick returns q for quick, t for thorough (no scaling or sharding).
func (c Config) Pick(q, t int) int {
	if c.Thorough() {
		return t
	}
	return q
}

// ShardSeed is the rapid seed for this shard.
func (c Config) ShardSeed() uint64 {
	s := c.Seed*1000 + uint64(c.Shard)
	if s == 0 {
		s = 1
	}
	return s
}

// Mine reports whether enumeration index i belongs to this shard.
func (c Config) Mine(i int) bool { return i%c.Shards == c.Shard }

// ---------------------------------------------------------------------------------------

const (
	maxSamples     = 16
	defaultHashCap = 8 << 20
)

type stageSamples struct {
	first     []json.RawMessage
	reservoir []json.RawMessage
}

// Rec is the per-process evidence recorder.
type Rec struct {
	Cfg Config

	mu        sync.Mutex
	evals     int64
	nontriv   []uint64 // sorted, distinct
	pending   []uint64
	ntSeen    int64 // non-trivial evaluations (with repeats)
	hashCap   int
	capped    bool
	labels    map[string]int64
	samples   map[string]*stageSamples
	sampleOrd []string
	stages    []StageInfo
	curStage  *StageInfo
	extra     map[string]interface{}
	known     []string

	violation    *Case
	vioErr       string
	inconclusive string

	start time.Time

	// in-flight case for the watchdog / crash post-mortem
	beat    atomic.Int64
	curIn   []byte
	curKind string
	curCase *Case
}

type StageInfo struct {
	Name        string  `json:"name"`
	Kind        string  `json:"kind"` // enumerate | rapid | sweep | stateful | regress | fuzz
	Evaluations int64   `json:"evaluations"`
	NonTrivial  int64   `json:"nontrivial_evaluations"`
	Complete    bool    `json:"complete,omitempty"`
	Space       string  `json:"space,omitempty"`
	WallS       float64 `json:"wall_s"`
	start       time.Time
}

func NewRec(cfg Config) *Rec {
	r := &Rec{Cfg: cfg, labels: map[string]int64{}, hashCap: defaultHashCap, samples: map[string]*stageSamples{},
		extra: map[string]interface{}{}, start: time.Now()}
	if cfg.Shards > 1 {
		r.hashCap = defaultHashCap / 2
	}
	if os.Getenv("VERIF_NOWATCHDOG") == "" {
		go r.watchdog()
	}
	return r
}

// Stage starts a new stage; the previous one is closed.
func (r *Rec) Stage(name, kind, space string, complete bool) {
	r.mu.Lock()
	defer r.mu.Unlock()
	r.closeStage()
	r.stages = append(r.stages, StageInfo{Name: name, Kind: kind, Space: space, Complete: complete, start: time.Now()})
	r.curStage = &r.stages[len(r.stages)-1]
}

func (r *Rec) closeStage() {
	if r.curStage != nil {
		r.curStage.WallS = time.Since(r.curStage.start).Seconds()
		r.curStage = nil
	}
}

// Hash is FNV-1a over the parts, with a separator; deterministic across processes.
func Hash(parts ...[]byte) uint64 {
	h := uint64(14695981039346656037)
	for _, p := range parts {
		for _, b := range p {
			h ^= uint64(b)
			h *= 1099511628211
		}
		h ^= 0xff
		h *= 1099511628211
	}
	return h
}

// HashInts mixes integers into a hash.
func HashInts(h uint64, xs ...int64) uint64 {
	for _, x := range xs {
		for k := 0; k < 8; k++ {
			h ^= uint64(byte(x >> (8 * k)))
			h *= 1099511628211
		}
	}
	return h
}

// Begin publishes the case about to be executed (for the watchdog and for post-mortems of
// crashes that recover() cannot catch). Cheap: no allocation.
func (r *Rec) Begin(kind string, in []byte) {
	r.curKind = kind
	r.curIn = in
	r.curCase = nil
	r.beat.Add(1)
}

// BeginCase is Begin for a structured case.
func (r *Rec) BeginCase(c *Case) {
	r.curCase = c
	r.beat.Add(1)
}

// Persist writes the in-flight case to disk before executing it; used for strata that can
// kill the process (stack overflow, runtime fatal error).
func (r *Rec) Persist(c *Case) {
	r.curCase = c
	r.beat.Add(1)
	c.fill()
	b, _ := json.MarshalIndent(c, "", " ")
	_ = os.WriteFile(filepath.Join(r.Cfg.OutDir, fmt.Sprintf("inflight-%d.json", r.Cfg.Shard)), b, 0o644)
}

// Eval counts one evaluation. key identifies the case for distinctness (hash of input and
// configuration); nontrivial is the property's stated rule.
func (r *Rec) Eval(key uint64, nontrivial bool) {
	r.evals++
	if r.curStage != nil {
		r.curStage.Evaluations++
	}
	if nontrivial {
		r.ntSeen++
		if r.curStage != nil {
			r.curStage.NonTrivial++
		}
		if !r.capped {
			r.pending = append(r.pending, key)
			if len(r.pending) >= 1<<20 {
				r.compact()
			}
		}
	}
}

// compact merges pending hashes into the sorted distinct set; past the cap the set stops
// growing (the count is then a lower bound and the evidence says so).
func (r *Rec) compact() {
	if len(r.pending) == 0 {
		return
	}
	all := append(r.nontriv, r.pending...)
	sort.Slice(all, func(i, j int) bool { return all[i] < all[j] })
	out := all[:0]
	for i, h := range all {
		if i == 0 || h != all[i-1] {
			out = append(out, h)
		}
	}
	r.nontriv = out
	r.pending = r.pending[:0]
	if len(r.nontriv) >= r.hashCap {
		r.capped = true
	}
}

// EvalN counts n evaluations that are not individually hashed (trivial ones).
func (r *Rec) EvalN(n int64) {
	r.evals += n
	if r.curStage != nil {
		r.curStage.Evaluations += n
	}
}

func (r *Rec) Label(l string) { r.labels[l]++ }

func (r *Rec) LabelN(l string, n int64) { r.labels[l] += n }

func (r *Rec) stageName() string {
	if r.curStage != nil {
		return r.curStage.Name
	}
	return "-"
}

func (r *Rec) stSamples() *stageSamples {
	n := r.stageName()
	ss := r.samples[n]
	if ss == nil {
		ss = &stageSamples{}
		r.samples[n] = ss
		r.sampleOrd = append(r.sampleOrd, n)
	}
	return ss
}

// WantSample reports whether the recorder would keep a sample now (cheap pre-check so
// callers only build sample values when needed).
func (r *Rec) WantSample(key uint64) bool {
	ss := r.stSamples()
	if len(ss.first) < 2 {
		return true
	}
	return key%4099 == 7 && len(ss.reservoir) < 16
}

// Sample keeps an actual case for the evidence file (a few per stage).
func (r *Rec) Sample(v interface{}) {
	if c, ok := v.(*Case); ok {
		c.fill()
	}
	b, err := json.Marshal(v)
	if err != nil {
		return
	}
	if len(b) > 4096 {
		b, _ = json.Marshal(map[string]interface{}{"truncated": string(b[:2000]), "bytes": len(b)})
	}
	ss := r.stSamples()
	if len(ss.first) < 2 {
		ss.first = append(ss.first, b)
		return
	}
	if len(ss.reservoir) < 16 {
		ss.reservoir = append(ss.reservoir, b)
	}
}

// SampleInput is the common case: keep an input with a few attributes.
func (r *Rec) SampleInput(key uint64, kind string, in []byte, attrs ...interface{}) {
	if !r.WantSample(key) {
		return
	}
	m := map[string]interface{}{"stage": r.stageName(), "kind": kind, "in": Preview(in), "len": len(in)}
	for i := 0; i+1 < len(attrs); i += 2 {
		m[fmt.Sprint(attrs[i])] = attrs[i+1]
	}
	r.Sample(m)
}

func (r *Rec) Extra(k string, v interface{}) {
	r.mu.Lock()
	r.extra[k] = v
	r.mu.Unlock()
}

// Known records a KNOWN-FINDING line to be printed by the driver.
func (r *Rec) Known(line string) { r.known = append(r.known, line) }

// Inconclusive marks the run as unable to decide (exit 2), e.g. oracle disagreement.
func (r *Rec) Inconclusive(why string, c *Case) {
	if r.inconclusive == "" {
		r.inconclusive = why
		if c != nil {
			c.fill()
			b, _ := json.MarshalIndent(c, "", " ")
			_ = os.WriteFile(filepath.Join(r.Cfg.OutDir, fmt.Sprintf("inconclusive-%d.json", r.Cfg.Shard)), b, 0o644)
		}
	}
}

func (r *Rec) IsInconclusive() bool { return r.inconclusive != "" }

// ReplayPath is where this shard writes a violating case.
func (r *Rec) ReplayPath() string {
	if r.Cfg.Shards > 1 {
		return filepath.Join(r.Cfg.Replay, fmt.Sprintf("%s.shard%d.json", r.Cfg.Prop, r.Cfg.Shard))
	}
	return filepath.Join(r.Cfg.Replay, r.Cfg.Prop+".json")
}

// Fail records a violating case: the replay file is overwritten with it (so after rapid's
// shrinking it holds the minimal case).
func (r *Rec) Fail(c *Case, err error) {
	r.mu.Lock()
	defer r.mu.Unlock()
	c.Prop = r.Cfg.Prop
	// a byte-level case built from a copy of the in-flight input: what lay behind that input
	// within its capacity belongs to the case (see props.inputOf)
	if in := r.curIn; len(c.Bufs) == 0 && len(c.Steps) == 0 && cap(in) > len(in) && bytes.Equal(in, c.In) {
		spare := cap(in) - len(in)
		if spare > 32 {
			spare = 32
		}
		c.Bufs = []HexBytes{append([]byte(nil), in[len(in):len(in)+spare]...)}
	}
	c.fill()
	cc := *c
	cc.Note = err.Error()
	first := r.violation == nil
	r.violation = &cc
	r.vioErr = err.Error()
	b, _ := json.MarshalIndent(&cc, "", " ")
	_ = os.MkdirAll(r.Cfg.Replay, 0o755)
	_ = os.WriteFile(r.ReplayPath(), b, 0o644)
	if first {
		// the first failing case of the process, before any shrinking: if the fault corrupted
		// process-wide state, the shrunk case may only fail in this process; the driver falls
		// back to this one
		_ = os.WriteFile(r.ReplayPath()+".first", b, 0o644)
	}
}

func (r *Rec) Failed() bool { return r.violation != nil }

// Result is what one shard hands to the driver.
type Result struct {
	Prop         string                 `json:"prop"`
	Tier         string                 `json:"tier"`
	Seed         uint64                 `json:"seed"`
	Shard        int                    `json:"shard"`
	Shards       int                    `json:"shards"`
	Evaluations  int64                  `json:"evaluations"`
	NonTrivEvals int64                  `json:"nontrivial_evaluations"`
	Distinct     int                    `json:"distinct_nontrivial_shard"`
	HashCapped   bool                   `json:"hash_capped"`
	Labels       map[string]int64       `json:"labels"`
	Samples      []json.RawMessage      `json:"samples"`
	Stages       []StageInfo            `json:"stages"`
	Extra        map[string]interface{} `json:"extra,omitempty"`
	Known        []string               `json:"known_findings,omitempty"`
	Violation    *Case                  `json:"violation,omitempty"`
	ViolationErr string                 `json:"violation_error,omitempty"`
	ReplayFile   string                 `json:"replay_file,omitempty"`
	Inconclusive string                 `json:"inconclusive,omitempty"`
	WallS        float64                `json:"wall_s"`
}

// Finish writes result-<shard>.json and hashes-<shard>.bin into OutDir.
func (r *Rec) Finish() {
	r.mu.Lock()
	defer r.mu.Unlock()
	r.closeStage()
	r.compact()
	res := Result{Prop: r.Cfg.Prop, Tier: r.Cfg.Tier, Seed: r.Cfg.Seed, Shard: r.Cfg.Shard, Shards: r.Cfg.Shards,
		Evaluations: r.evals, NonTrivEvals: r.ntSeen, Distinct: len(r.nontriv), HashCapped: r.capped,
		Labels: r.labels, Stages: r.stages, Extra: r.extra, Known: r.known, Violation: r.violation,
		ViolationErr: r.vioErr, Inconclusive: r.inconclusive, WallS: time.Since(r.start).Seconds()}
	if r.violation != nil {
		res.ReplayFile = r.ReplayPath()
	}
	// samples: the first two of every stage, then reservoir entries round-robin
	for _, n := range r.sampleOrd {
		res.Samples = append(res.Samples, r.samples[n].first...)
	}
	for k := 0; k < 16 && len(res.Samples) < maxSamples; k++ {
		for _, n := range r.sampleOrd {
			rs := r.samples[n].reservoir
			if k < len(rs) && len(res.Samples) < maxSamples {
				res.Samples = append(res.Samples, rs[len(rs)-1-k])
			}
		}
	}
	b, _ := json.MarshalIndent(&res, "", " ")
	_ = os.MkdirAll(r.Cfg.OutDir, 0o755)
	_ = os.WriteFile(filepath.Join(r.Cfg.OutDir, fmt.Sprintf("result-%d.json", r.Cfg.Shard)), b, 0o644)
	// hash set, sorted, 8 bytes little endian each
	hs := r.nontriv
	buf := make([]byte, 8*len(hs))
	for i, h := range hs {
		for k := 0; k < 8; k++ {
			buf[8*i+k] = byte(h >> (8 * k))
		}
	}
	_ = os.WriteFile(filepath.Join(r.Cfg.OutDir, fmt.Sprintf("hashes-%d.bin", r.Cfg.Shard)), buf, 0o644)
	_ = os.Remove(filepath.Join(r.Cfg.OutDir, fmt.Sprintf("inflight-%d.json", r.Cfg.Shard)))
}

// watchdog: if no heartbeat for Cfg.Watchdog, dump the in-flight case and exit(3).
func (r *Rec) watchdog() {
	last := r.beat.Load()
	lastChange := time.Now()
	for {
		time.Sleep(500 * time.Millisecond)
		b := r.beat.Load()
		if b != last {
			last, lastChange = b, time.Now()
			continue
		}
		if b == 0 || time.Since(lastChange) < r.Cfg.Watchdog {
			continue
		}
		c := r.curCase
		if c == nil {
			c = &Case{Prop: r.Cfg.Prop, Kind: r.curKind, In: append([]byte(nil), r.curIn...)}
		}
		c.Prop = r.Cfg.Prop
		c.fill()
		c.Note = "watchdog: no progress for " + r.Cfg.Watchdog.String()
		out, _ := json.MarshalIndent(c, "", " ")
		_ = os.WriteFile(filepath.Join(r.Cfg.OutDir, fmt.Sprintf("hang-%d.json", r.Cfg.Shard)), out, 0o644)
		fmt.Fprintf(os.Stderr, "WATCHDOG: case did not finish within %v; in-flight case written\n", r.Cfg.Watchdog)
		os.Exit(3)
	}
}

// Idle tells the watchdog the process is between cases (e.g. building a big fixture).
func (r *Rec) Idle() { r.beat.Add(1) }

// LoadCase reads a replay file.
func LoadCase(path string) (*Case, error) {
	b, err := os.ReadFile(path)
	if err != nil {
		return nil, err
	}
	var c Case
	if err := json.Unmarshal(b, &c); err != nil {
		return nil, err
	}
	return &c, nil
}

// RegressCases loads every committed regression case for a property.
func RegressCases(prop string) ([]*Case, []string) {
	dir := os.Getenv("VERIF_REGRESS")
	if dir == "" {
		return nil, nil
	}
	files, _ := filepath.Glob(filepath.Join(dir, prop+"*.json"))
	sort.Strings(files)
	var cs []*Case
	var names []string
	for _, f := range files {
		c, err := LoadCase(f)
		if err != nil {
			panic(fmt.Sprintf("bad regress file %s: %v", f, err))
		}
		if !strings.EqualFold(c.Prop, prop) {
			continue
		}
		cs = append(cs, c)
		names = append(names, f)
	}
	return cs, names
}

// Catch runs f and converts a panic into an error (value and a short stack are kept).
func Catch(f func() error) (err error) {
	defer func() {
		if x := recover(); x != nil {
			err = fmt.Errorf("panic: %v", x)
		}
	}()
	return f()
}

// WriteCase writes a case as a replay file.
func WriteCase(path string, c *Case) error {
	c.fill()
	b, err := json.MarshalIndent(c, "", " ")
	if err != nil {
		return err
	}
	return os.WriteFile(path, b, 0o644)
}
