module verifharness

go 1.23

require (
	github.com/willabides/rjson v0.0.0
	pgregory.net/rapid v1.3.0
)

replace github.com/willabides/rjson => /repo
