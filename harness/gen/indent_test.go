package gen

import (
	"testing"

	"verifharness/ref"

	"pgregory.net/rapid"
)

// indented shapes are well-formed exactly when fully closed and without a garbage trailer
func TestIndentedShapes(t *testing.T) {
	rapid.Check(t, func(rt *rapid.T) {
		n := DrawIndented(rt)
		doc := n.Build()
		end := ref.Skip(doc, 1<<30)
		ok := end >= 0
		if want := n.Close == n.Depth; ok != want {
			rt.Fatalf("spec %+v: well-formed=%v want %v (len %d)", n, ok, want, len(doc))
		}
		if ok && end != len(doc)-len(n.Trail) {
			rt.Fatalf("end %d of %d", end, len(doc))
		}
	})
}

// every generated number is a JSON number token
func TestNumIsNumber(t *testing.T) {
	rapid.Check(t, func(rt *rapid.T) {
		b := Num(rt, nil)
		if end := ref.Skip(b, 10); end != len(b) {
			rt.Fatalf("%q: end %d", b, end)
		}
	})
}

// depth shapes with a trailing member are well-formed exactly when fully closed
func TestNestAfter(t *testing.T) {
	rapid.Check(t, func(rt *rapid.T) {
		n := DrawNest(rt, []int{1, 2, 3, 5, 17})
		n.Trail = ""
		doc := n.Build()
		end := ref.Skip(doc, 1<<30)
		if want := n.Close == n.Depth; (end >= 0) != want {
			rt.Fatalf("spec %+v: %q well-formed=%v want %v", n, doc, end >= 0, want)
		}
	})
}

// token spans cover exactly the non-whitespace bytes of a well-formed document, in order
func TestTokenSpans(t *testing.T) {
	rapid.Check(t, func(rt *rapid.T) {
		b := Doc(rt, AnyProfile(rt))
		last := 0
		for _, sp := range tokenSpans(b) {
			for _, c := range b[last:sp[0]] {
				if c != ' ' && c != '\t' && c != '\n' && c != '\r' {
					rt.Fatalf("byte %q between tokens in %q", c, b)
				}
			}
			if sp[1] <= sp[0] {
				rt.Fatalf("empty token in %q", b)
			}
			last = sp[1]
		}
		_ = MutateTokens(rt, b)
	})
}
