// Package gen holds the generators: rapid grammar generators for JSON documents, byte-level
// mutators, position x byte sweeps, shortlex enumerators and depth/size shapes.
// Every random choice is a rapid draw.
package gen

import (
	"math"
	"strconv"
	"strings"

	"pgregory.net/rapid"
)

// Profile biases document shape.
type Profile struct {
	MaxDepth   int
	MaxMembers int
	WS         int // 1-in-WS chance of whitespace at a gap (0 = never)
	StrPieces  int // max pieces per string
	Scalars    int // weight of scalars vs containers at depth>0 (higher = more scalars)
}

var (
	Tiny    = Profile{MaxDepth: 2, MaxMembers: 3, WS: 4, StrPieces: 3, Scalars: 6}
	Small   = Profile{MaxDepth: 4, MaxMembers: 4, WS: 4, StrPieces: 4, Scalars: 6}
	Wide    = Profile{MaxDepth: 2, MaxMembers: 40, WS: 8, StrPieces: 3, Scalars: 7}
	Deep    = Profile{MaxDepth: 12, MaxMembers: 2, WS: 6, StrPieces: 2, Scalars: 3}
	Stringy = Profile{MaxDepth: 3, MaxMembers: 4, WS: 6, StrPieces: 12, Scalars: 6}
)

var Profiles = []Profile{Tiny, Small, Wide, Deep, Stringy}

func intn(t *rapid.T, n int, label string) int {
	if n <= 1 {
		return 0
	}
	return rapid.IntRange(0, n-1).Draw(t, label)
}

const wsBytes = " \t\r\n"

func ws(t *rapid.T, b []byte, p Profile) []byte {
	if p.WS == 0 {
		return b
	}
	for intn(t, p.WS, "ws?") == 0 {
		b = append(b, wsBytes[intn(t, 4, "ws")])
	}
	return b
}

// StrPieces are building blocks of string contents: plain ASCII, multi-byte UTF-8, stray
// continuation/lead bytes, every two-character escape, \u forms (BMP, pairs, lone and
// reversed surrogates, mixed-case hex), structural characters, DEL.
var StrPieces = []string{
	"a", "b", "k", "xyz", "", " ", "é", "\xff", "\xc3", "\x80", "\xe2\x82", "\\n", "\\\"", "\\\\", "\\/", "\\b", "\\f", "\\r", "\\t",
	"\\u0041", "\\u00e9", "\\u00E9", "\\ud83d\\ude00", "\\uD83D\\uDE00", "\\ud800", "\\udc00", "\\udfff", "\\udbff",
	"\\ud800\\u0041", "\\ud800\\ud800", "\\udc00\\ud800", "\\uD834\\uDD1E", "\\u0000", "\\u001f", "\\uFFFD", "\\ufffe", "\\uffff",
	"[", "]", "{", "}", ",", ":", "\x7f", "\xe2\x82\xac", "\xf0\x9f\x98\x80", "\xed\xa0\x80", "\xf4\x90\x80\x80", "\xc0\xaf", "'", "/",
	"null", "true", "1e5", "\\\\\\\"", "\\\\u0041", "0123456789abcdef", "                ",
}

// StrContent draws the content (between quotes) of a well-formed JSON string.
func StrContent(t *rapid.T, maxPieces int) []byte {
	var b []byte
	n := intn(t, maxPieces+1, "npieces")
	for i := 0; i < n; i++ {
		if intn(t, 8, "free?") == 0 {
			// a free byte that is legal raw content
			c := byte(rapid.IntRange(0x20, 0xff).Draw(t, "rawbyte"))
			if c == '"' || c == '\\' {
				c = 'q'
			}
			b = append(b, c)
			continue
		}
		b = append(b, StrPieces[intn(t, len(StrPieces), "piece")]...)
	}
	return b
}

// Str appends a well-formed string token.
func Str(t *rapid.T, b []byte, maxPieces int) []byte {
	b = append(b, '"')
	b = append(b, StrContent(t, maxPieces)...)
	return append(b, '"')
}

// Nums is a pool of number literals on every float path and at integer type bounds.
var Nums = []string{
	"0", "-0", "1", "-1", "9", "10", "0.5", "-0.0", "0.0", "1e5", "1E-5", "1e+5", "1E+0", "1.5e300", "12.25", "100", "1e0", "-1.5E-10",
	"1e400", "-1e400", "1e309", "1.7976931348623157e308", "1.7976931348623159e308", "1.797693134862315808e308",
	"123456789012345678901234567890", "0.1", "2.5e-324", "2.4e-324", "1e-400", "4.9e-324", "5e-324", "2.2250738585072014e-308",
	"2.2250738585072011e-308", "9007199254740993", "9007199254740992", "9007199254740991", "1e23", "8.41e21", "1e22", "1e-22",
	"2147483647", "2147483648", "-2147483648", "-2147483649", "4294967295", "4294967296",
	"9223372036854775807", "9223372036854775808", "-9223372036854775808", "-9223372036854775809",
	"18446744073709551615", "18446744073709551616", "999999999999999999", "1000000000000000000", "99999999999999999999",
	"0.000000000000000000000000000001", "1.00000000000000011102230246251565404236316680908203125",
	"1.00000000000000011102230246251565404236316680908203124", "1.00000000000000011102230246251565404236316680908203126",
	"0e999", "-0e-999", "0.0e+5", "1e-10000", "1e10000", "123e-2", "0.3", "3.14159", "-273.15", "6.02214076e23",
}

// Num appends a number literal.
func Num(t *rapid.T, b []byte) []byte {
	switch intn(t, 6, "numkind") {
	case 0:
		bits := rapid.Uint64().Draw(t, "fbits")
		if intn(t, 2, "uniform?") == 0 {
			bits = mix64(bits) // rapid favours small integers, i.e. tiny subnormals: spread the bits
		}
		f := math.Float64frombits(bits)
		if math.IsNaN(f) || math.IsInf(f, 0) {
			f = 1.5
		}
		return strconv.AppendFloat(b, f, "eg"[intn(t, 2, "fmt")], -1, 64)
	case 1:
		return strconv.AppendInt(b, rapid.Int64().Draw(t, "int"), 10)
	case 2:
		// short decimal: up to 19 digits, optional point, exponent within +-45 (the exact and
		// table-driven conversion paths and their limits), either sign
		if intn(t, 2, "neg") == 0 {
			b = append(b, '-')
		}
		nd := 1 + intn(t, 19, "ndig")
		point := intn(t, nd+1, "point")
		for i := 0; i < nd; i++ {
			d := byte('0' + intn(t, 10, "dig"))
			if i == 0 && nd > 1 && point != 1 && d == '0' {
				d = '1' // no leading zero before further integer digits
			}
			b = append(b, d)
			if i+1 == point && i+1 < nd {
				b = append(b, '.')
			}
		}
		if point == 0 { // all digits were meant as a fraction: 0.ddd
			b = append(append(b[:len(b)-nd:len(b)-nd], '0', '.'), b[len(b)-nd:]...)
		}
		if intn(t, 3, "exp?") > 0 {
			b = append(b, "eE"[intn(t, 2, "E")])
			b = strconv.AppendInt(b, int64(intn(t, 91, "exp"))-45, 10)
		}
		return b
	default:
		return append(b, Nums[intn(t, len(Nums), "num")]...)
	}
}

func mix64(x uint64) uint64 {
	x += 0x9e3779b97f4a7c15
	x = (x ^ (x >> 30)) * 0xbf58476d1ce4e5b9
	x = (x ^ (x >> 27)) * 0x94d049bb133111eb
	return x ^ (x >> 31)
}

// Scalar appends a scalar value.
func Scalar(t *rapid.T, b []byte, p Profile) []byte {
	switch intn(t, 8, "scalar") {
	case 0:
		return append(b, "null"...)
	case 1:
		return append(b, "true"...)
	case 2:
		return append(b, "false"...)
	case 3, 4:
		return Num(t, b)
	default:
		return Str(t, b, p.StrPieces)
	}
}

var keyPool = []string{`"a\\n"`, `"\\u0041"`, `"\u0041"`, `"C:\\temp"`, `"C:\temp"`, `"k"`, `"a"`, `"b"`, `"a"`, `"k"`, `""`, `"a\n"`, `"k"`, `"\ud800"`, "\"\xff\"", `"�"`, `"é"`, `"é"`}

// Key appends an object key (from a small pool so duplicates, raw-equal and
// escaped-equal, are frequent; sometimes a free string).
func Key(t *rapid.T, b []byte, p Profile) []byte {
	switch intn(t, 9, "freekey?") {
	case 8:
		// a long key with one escape in it: decoded lengths round 64, 128 and 256 (name scratch
		// of the generic decoder, small-buffer thresholds)
		n := []int{30, 60, 63, 64, 65, 66, 100, 127, 128, 129, 140, 255, 256, 257, 300}[intn(t, 15, "keylen")]
		esc := []string{`\n`, `\u00e9`, `\"`, `\\`, `\ud83d\ude00`}[intn(t, 5, "keyesc")]
		at := intn(t, n+1, "keyescat")
		b = append(b, '"')
		for i := 0; i < n; i++ {
			if i == at {
				b = append(b, esc...)
			}
			b = append(b, byte('a'+i%26))
		}
		if at == n {
			b = append(b, esc...)
		}
		return append(b, '"')
	case 0, 1:
		return Str(t, b, p.StrPieces)
	case 2:
		// twins: a key whose DECODED text equals another key's RAW spelling (escaped backslash
		// + escape letter vs. the escape itself), over a small family of bases so that both
		// spellings meet in one object or on one reader
		base := []string{"", "a", "k", "p:", "dir", "x/y", "é", "q\\"}[intn(t, 8, "twinbase")]
		esc := []string{"n", "t", "b", "f", "r", "/", "u0041", "u00e9", "ud83d\\ude00", "uDC00"}[intn(t, 10, "twinesc")]
		tail := []string{"", "z", "ew", "1"}[intn(t, 4, "twintail")]
		b = append(b, '"')
		b = append(b, base...)
		if intn(t, 2, "twinform") == 0 {
			b = append(b, '\\', '\\') // escaped backslash: decodes to a literal backslash
		} else {
			b = append(b, '\\')
		}
		b = append(b, esc...)
		b = append(b, tail...)
		return append(b, '"')
	}
	return append(b, keyPool[intn(t, len(keyPool), "key")]...)
}

// Val appends a JSON value of nesting at most depth.
func Val(t *rapid.T, b []byte, p Profile, depth int) []byte {
	k := intn(t, 10, "valkind")
	if depth <= 0 || k < p.Scalars {
		return Scalar(t, b, p)
	}
	n := intn(t, p.MaxMembers+1, "members")
	if k%2 == 0 {
		b = append(b, '[')
		for i := 0; i < n; i++ {
			if i > 0 {
				b = append(b, ',')
			}
			b = ws(t, b, p)
			b = Val(t, b, p, depth-1)
			b = ws(t, b, p)
		}
		if n == 0 {
			b = ws(t, b, p)
		}
		return append(b, ']')
	}
	b = append(b, '{')
	for i := 0; i < n; i++ {
		if i > 0 {
			b = append(b, ',')
		}
		b = ws(t, b, p)
		b = Key(t, b, p)
		b = ws(t, b, p)
		b = append(b, ':')
		b = ws(t, b, p)
		b = Val(t, b, p, depth-1)
		b = ws(t, b, p)
	}
	if n == 0 {
		b = ws(t, b, p)
	}
	return append(b, '}')
}

// Container appends an array (kind '[') or object (kind '{') with members drawn by Val.
func Container(t *rapid.T, b []byte, p Profile, kind byte, depth int) []byte {
	n := intn(t, p.MaxMembers+1, "members")
	b = append(b, kind)
	for i := 0; i < n; i++ {
		if i > 0 {
			b = append(b, ',')
		}
		b = ws(t, b, p)
		if kind == '{' {
			b = Key(t, b, p)
			b = ws(t, b, p)
			b = append(b, ':')
			b = ws(t, b, p)
		}
		b = Val(t, b, p, depth-1)
		b = ws(t, b, p)
	}
	if n == 0 {
		b = ws(t, b, p)
	}
	return append(b, kind+2) // ']' = '['+2, '}' = '{'+2
}

// Trailers are bytes/fragments that may follow a complete value.
var Trailers = []string{"", "", "", " ", "\n", ",", "]", "}", ":", "x", "1", "\"", "\x00", " x", "\t\r\n ", "null", "[", "{", "e", ".", "-", "+", "0", "\xff", "\x0c", "\x0b",
	"\xef\xbb\xbf", "\xef\xbb\xbf\n", " \xef\xbb\xbf", "\xc2\xa0", "\xe2\x80\xa8", "\xe2\x80\x8b", "//", "/**/", " // c\n", "\xef\xbb", "\xfe\xff", ".5", "e5", "E-1", ".5e3", "5", "00", "-1", "\r\n\r\n", "\x1a", "\x85", "#", ";"}

// Doc draws a well-formed document: optional leading whitespace, one value, optional
// trailer (whitespace or arbitrary following bytes).
func Doc(t *rapid.T, p Profile) []byte {
	b := ws(t, nil, p)
	b = Val(t, b, p, 1+intn(t, p.MaxDepth, "depth"))
	return b
}

// DocTrail is Doc followed by a drawn trailer.
func DocTrail(t *rapid.T, p Profile) []byte {
	b := Doc(t, p)
	return append(b, Trailers[intn(t, len(Trailers), "trailer")]...)
}

// AnyProfile draws a profile.
func AnyProfile(t *rapid.T) Profile { return Profiles[intn(t, len(Profiles), "profile")] }

// Hostile single bytes used by mutators and sweeps.
const HostileBytes = " \t\r\n[]{},:\"\\/u0019-+.eEtrufalsn\x00\x1f\x7f\x80\xff\x0b\x0c'"

// Mutate applies one byte-level corruption.
func Mutate(t *rapid.T, b []byte) []byte {
	b = append([]byte(nil), b...)
	if len(b) == 0 {
		return append(b, HostileBytes[intn(t, len(HostileBytes), "hb")])
	}
	i := intn(t, len(b), "mutpos")
	pick := func() byte {
		if intn(t, 3, "freebyte?") == 0 {
			return byte(intn(t, 256, "byte"))
		}
		return HostileBytes[intn(t, len(HostileBytes), "hb")]
	}
	switch intn(t, 12, "mutkind") {
	case 0:
		return b[:i]
	case 1:
		b[i] = pick()
		return b
	case 2:
		return append(b[:i:i], b[i+1:]...)
	case 3:
		return append(b[:i:i], append([]byte{pick()}, b[i:]...)...)
	case 4: // swap bracket kinds
		for k := i; k < len(b); k++ {
			switch b[k] {
			case '[':
				b[k] = '{'
				return b
			case ']':
				b[k] = '}'
				return b
			case '{':
				b[k] = '['
				return b
			case '}':
				b[k] = ']'
				return b
			}
		}
		return b
	case 5: // duplicate a byte
		return append(b[:i+1:i+1], b[i:]...)
	case 6: // splice: duplicate a fragment elsewhere
		j := intn(t, len(b), "mutpos2")
		if j < i {
			i, j = j, i
		}
		frag := append([]byte(nil), b[i:j]...)
		k := intn(t, len(b)+1, "mutpos3")
		return append(b[:k:k], append(frag, b[k:]...)...)
	case 7: // append a trailing byte
		return append(b, pick())
	case 8: // structural: duplicate, drop or follow a bracket / comma / colon with another one
		return MutateStructure(t, b)
	case 10: // token level: drop 1..3 consecutive tokens, duplicate one, or swap two neighbours
		return MutateTokens(t, b)
	case 9: // a complete multi-byte UTF-8 sequence that a rune-based classifier could take for a
		// space, a digit, a quote or a control character
		seq := []string{"\u0120", "\u010a", "\u2009", "\u00a0", "\u0085", "\ufeff", "\u0663", "\uff11", "\u201c", "\u2028", "\u3000", "\u0941", "\U0001f60d", "\u007f", "\u0222"}[intn(t, 15, "mbseq")]
		return append(b[:i:i], append([]byte(seq), b[i:]...)...)
	default: // an extra fraction / exponent tail after some number
		return MutateNumberTail(t, b)
	}
}

// MutateStructure picks one of the bytes [ ] { } , : of b (wherever it stands) and duplicates
// it, removes it, or puts another structural byte right after it: near-valid documents whose
// only fault is one bracket or separator too many or too few.
func MutateStructure(t *rapid.T, b []byte) []byte {
	var at []int
	for i, c := range b {
		switch c {
		case '[', ']', '{', '}', ',', ':':
			at = append(at, i)
		}
	}
	if len(at) == 0 {
		return b
	}
	i := at[intn(t, len(at), "structpos")]
	switch intn(t, 3, "structkind") {
	case 0:
		return append(b[:i+1:i+1], b[i:]...)
	case 1:
		return append(b[:i:i], b[i+1:]...)
	}
	c := "[]{},:"[intn(t, 6, "structbyte")]
	return append(b[:i+1:i+1], append([]byte{c}, b[i+1:]...)...)
}

// tokenSpans splits b into lexical tokens (string tokens with their escapes, runs of
// number / literal bytes, single structural bytes); whitespace separates tokens and belongs
// to none. Malformed input still splits somehow: the result only steers a mutation.
func tokenSpans(b []byte) [][2]int {
	var out [][2]int
	for i := 0; i < len(b); {
		c := b[i]
		switch {
		case c == ' ' || c == '\t' || c == '\n' || c == '\r':
			i++
		case c == '"':
			j := i + 1
			for j < len(b) && b[j] != '"' {
				if b[j] == '\\' {
					j++
				}
				j++
			}
			if j < len(b) {
				j++
			} else {
				j = len(b)
			}
			out = append(out, [2]int{i, j})
			i = j
		case c == '[' || c == ']' || c == '{' || c == '}' || c == ',' || c == ':':
			out = append(out, [2]int{i, i + 1})
			i++
		default:
			j := i + 1
			for j < len(b) && !strings.ContainsRune(" \t\n\r\"[]{},:", rune(b[j])) {
				j++
			}
			out = append(out, [2]int{i, j})
			i = j
		}
	}
	return out
}

// TokenSweep calls f on every token-level edit of doc: 1..3 consecutive tokens dropped at
// every position, every token duplicated, every pair of neighbours swapped.
func TokenSweep(doc []byte, f func([]byte) bool) {
	toks := tokenSpans(doc)
	for k := range toks {
		for n := 1; n <= 3 && k+n <= len(toks); n++ {
			out := append([]byte(nil), doc[:toks[k][0]]...)
			if !f(append(out, doc[toks[k+n-1][1]:]...)) {
				return
			}
		}
		out := append([]byte(nil), doc[:toks[k][1]]...)
		out = append(out, doc[toks[k][0]:toks[k][1]]...)
		if !f(append(out, doc[toks[k][1]:]...)) {
			return
		}
		if k+1 < len(toks) {
			out := append([]byte(nil), doc[:toks[k][0]]...)
			out = append(out, doc[toks[k+1][0]:toks[k+1][1]]...)
			out = append(out, doc[toks[k][1]:toks[k+1][0]]...)
			out = append(out, doc[toks[k][0]:toks[k][1]]...)
			if !f(append(out, doc[toks[k+1][1]:]...)) {
				return
			}
		}
	}
}

// MutateTokens edits b at token granularity: structure errors that no single-byte edit makes
// (a member without its key, a value twice, key and value swapped).
func MutateTokens(t *rapid.T, b []byte) []byte {
	toks := tokenSpans(b)
	if len(toks) == 0 {
		return b
	}
	k := intn(t, len(toks), "token")
	switch intn(t, 4, "tokenop") {
	case 0, 1: // drop 1..3 consecutive tokens (keeping the whitespace round them)
		n := 1 + intn(t, 3, "ntokens")
		if k+n > len(toks) {
			n = len(toks) - k
		}
		out := append([]byte(nil), b[:toks[k][0]]...)
		return append(out, b[toks[k+n-1][1]:]...)
	case 2: // duplicate
		out := append([]byte(nil), b[:toks[k][1]]...)
		out = append(out, b[toks[k][0]:toks[k][1]]...)
		return append(out, b[toks[k][1]:]...)
	default: // swap with the next token
		if k+1 >= len(toks) {
			return b
		}
		out := append([]byte(nil), b[:toks[k][0]]...)
		out = append(out, b[toks[k+1][0]:toks[k+1][1]]...)
		out = append(out, b[toks[k][1]:toks[k+1][0]]...)
		out = append(out, b[toks[k][0]:toks[k][1]]...)
		return append(out, b[toks[k+1][1]:]...)
	}
}

// numTails are fraction / exponent tails; appended to a number that already has one they
// make a token that maximal munch must split (1.5.5, 1e5e5, 2.5e3.75).
var numTails = []string{".5", ".25", "e5", "E-1", "e+2", ".5e3", ".0", "e0"}

// MutateNumberTail finds a number inside b (a digit followed by a non-number byte or the end)
// and inserts an extra fraction/exponent tail right after it.
func MutateNumberTail(t *rapid.T, b []byte) []byte {
	var ends []int
	for i := 0; i < len(b); i++ {
		if b[i] >= '0' && b[i] <= '9' && (i+1 == len(b) || !(b[i+1] >= '0' && b[i+1] <= '9' || b[i+1] == '.' || b[i+1] == 'e' || b[i+1] == 'E')) {
			ends = append(ends, i+1)
		}
	}
	if len(ends) == 0 {
		return b
	}
	at := ends[intn(t, len(ends), "numend")]
	tail := numTails[intn(t, len(numTails), "numtail")]
	out := append([]byte(nil), b[:at]...)
	out = append(out, tail...)
	return append(out, b[at:]...)
}

// Sweep calls f on every truncation of doc, every single-byte substitution (256 values at
// every position) and every single-byte insertion (256 values at every gap):
// 513*len+257 inputs... the slice passed to f is reused between calls.
func Sweep(doc []byte, f func([]byte) bool) {
	m := make([]byte, 0, len(doc)+1)
	for i := 0; i <= len(doc); i++ {
		if !f(doc[:i]) {
			return
		}
		for c := 0; c < 256; c++ {
			if i < len(doc) && byte(c) != doc[i] {
				m = append(append(append(m[:0], doc[:i]...), byte(c)), doc[i+1:]...)
				if !f(m) {
					return
				}
			}
			m = append(append(append(m[:0], doc[:i]...), byte(c)), doc[i:]...)
			if !f(m) {
				return
			}
		}
	}
}

// Shortlex enumerates all strings over alphabet of length 0..maxLen; index i -> string.
type Shortlex struct {
	Alphabet []byte
	MaxLen   int
}

// Count is the number of strings.
func (s Shortlex) Count() int {
	n, pow := 0, 1
	for l := 0; l <= s.MaxLen; l++ {
		n += pow
		pow *= len(s.Alphabet)
	}
	return n
}

// Each calls f(i, str) for every string whose index i satisfies i%shards==shard. The
// strings are produced by an odometer, so the cost is O(1) amortised; buf is reused.
func (s Shortlex) Each(shard, shards int, f func(idx int, b []byte) bool) {
	idx := 0
	k := len(s.Alphabet)
	for l := 0; l <= s.MaxLen; l++ {
		digits := make([]int, l)
		buf := make([]byte, l)
		for i := range buf {
			buf[i] = s.Alphabet[0]
		}
		for {
			if idx%shards == shard {
				if !f(idx, buf) {
					return
				}
			}
			idx++
			// increment odometer (last position fastest)
			p := l - 1
			for p >= 0 {
				digits[p]++
				if digits[p] < k {
					buf[p] = s.Alphabet[digits[p]]
					break
				}
				digits[p] = 0
				buf[p] = s.Alphabet[0]
				p--
			}
			if p < 0 {
				break
			}
		}
	}
}

// JSONAlphabet is the 34-byte alphabet for short-string enumeration of documents.
var JSONAlphabet = []byte(" \n[]{},:\"\\/u019-+.eEtrfalsn\x00\x1f\x7f\xffAbx")

// StringAlphabet is the alphabet for enumerating string contents.
var StringAlphabet = []byte("\"\\/bfnrtu09afAFdD8cC\x00\x1f \x7f\x80\xc3\xffx")

// NestSpec describes a depth shape.
type NestSpec struct {
	Depth   int    // number of openers
	Pattern string // sequence of 'a' (array) / 'o' (object) repeated cyclically
	Close   int    // how many closers are emitted (Depth = fully closed)
	Bottom  string // scalar at the bottom ("" = empty innermost container)
	Lead    string // prefix (whitespace)
	Trail   string // suffix
	Sibling bool   // put a scalar sibling before each deep member
	// pretty-printing: after every opener and before every closer a newline and
	// min(level*IndentStep, IndentCap) indentation bytes (IndentStep 0 = compact)
	IndentStep int
	IndentCap  int
	IndentByte byte
	// After is a member that FOLLOWS the deep member in the outermost AfterLevels containers
	// ("" = none): what comes after an over-deep part has been left behind
	After       string
	AfterLevels int
}

func (n NestSpec) indent(sb *strings.Builder, level int) {
	if n.IndentStep == 0 {
		return
	}
	w := level * n.IndentStep
	if n.IndentCap > 0 && w > n.IndentCap {
		w = n.IndentCap
	}
	c := n.IndentByte
	if c == 0 {
		c = ' '
	}
	sb.WriteByte('\n')
	for i := 0; i < w; i++ {
		sb.WriteByte(c)
	}
}

// Build renders the shape.
func (n NestSpec) Build() []byte {
	var sb strings.Builder
	sb.Grow(n.Depth*8 + 16)
	sb.WriteString(n.Lead)
	pat := n.Pattern
	if pat == "" {
		pat = "a"
	}
	kinds := make([]byte, n.Depth)
	for i := 0; i < n.Depth; i++ {
		k := pat[i%len(pat)]
		kinds[i] = k
		inner := i+1 < n.Depth || n.Bottom != ""
		if k == 'o' {
			sb.WriteByte('{')
			if inner {
				n.indent(&sb, i+1)
			}
			if n.Sibling {
				sb.WriteString(`"s":1,`)
			}
			sb.WriteString(`"k":`)
		} else {
			sb.WriteByte('[')
			if inner {
				n.indent(&sb, i+1)
			}
			if n.Sibling {
				sb.WriteString(`1,`)
			}
		}
	}
	if n.Bottom != "" {
		sb.WriteString(n.Bottom)
	} else if n.Depth > 0 {
		// innermost container must be empty: remove the dangling `"k":` / `1,`
		s := sb.String()
		if kinds[n.Depth-1] == 'o' {
			if n.Sibling {
				s = s[:len(s)-len(`"s":1,"k":`)]
			} else {
				s = s[:len(s)-len(`"k":`)]
			}
		} else if n.Sibling {
			s = s[:len(s)-len(`1,`)]
		}
		sb.Reset()
		sb.WriteString(s)
	}
	for i := n.Depth - 1; i >= 0 && n.Depth-1-i < n.Close; i-- {
		if n.After != "" && i < n.AfterLevels && i+1 < n.Depth {
			// the member at level i+1 has just been closed: add a sibling behind it
			if kinds[i] == 'o' {
				sb.WriteString(`,"t":`)
			} else {
				sb.WriteByte(',')
			}
			sb.WriteString(n.After)
		}
		n.indent(&sb, i)
		if kinds[i] == 'o' {
			sb.WriteByte('}')
		} else {
			sb.WriteByte(']')
		}
	}
	sb.WriteString(n.Trail)
	return []byte(sb.String())
}

// DrawIndented draws a pretty-printed depth shape: indentation that grows with the nesting
// level up to a cap, with depths on both sides of the cap (so lines are both wider and
// narrower than the depth), fully or partly closed.
func DrawIndented(t *rapid.T) NestSpec {
	caps := []int{0, 8, 64, 255, 256, 500, 512, 1000, 1024, 2048}
	n := NestSpec{Pattern: NestPatterns[intn(t, len(NestPatterns), "pattern")], IndentStep: []int{1, 1, 2, 4}[intn(t, 4, "step")],
		IndentCap: caps[intn(t, len(caps), "cap")], IndentByte: " \t"[intn(t, 8, "tab?")/7]}
	base := n.IndentCap
	if base == 0 {
		base = []int{3, 40, 700}[intn(t, 3, "base")]
	}
	n.Depth = []int{base/n.IndentStep + 1, base + 1, base + 2, 2*base + 1, base - 1, base / 2}[intn(t, 6, "depth")]
	if n.Depth < 1 {
		n.Depth = 1
	}
	for n.Depth > 8 && n.Depth*min(base, n.Depth*n.IndentStep) > 3<<20 {
		n.Depth /= 2
	}
	n.Close = n.Depth
	if intn(t, 5, "close") == 0 {
		n.Close = n.Depth - 1
	}
	n.Bottom = []string{"", "1", `"x"`, "null", "[]", "{}"}[intn(t, 6, "bottom")]
	n.Trail = []string{"", "\n", "x"}[intn(t, 3, "trail")]
	n.Sibling = intn(t, 4, "sibling") == 0
	return n
}

// NestPatterns are the array/object mixtures used for depth shapes.
var NestPatterns = []string{"a", "o", "ao", "oa", "aao", "ooa", "aoooa"}

// DrawNest draws a depth shape around the limit or far beyond it.
func DrawNest(t *rapid.T, depths []int) NestSpec {
	d := depths[intn(t, len(depths), "depth")]
	n := NestSpec{Depth: d, Pattern: NestPatterns[intn(t, len(NestPatterns), "pattern")]}
	switch intn(t, 4, "close") {
	case 0:
		n.Close = 0
	case 1:
		n.Close = d - 1
	default:
		n.Close = d
	}
	n.Bottom = []string{"", "1", `"x"`, "null", `"\n"`, "[]", "{}"}[intn(t, 7, "bottom")]
	n.Lead = []string{"", " ", "\n\t"}[intn(t, 3, "lead")]
	n.Trail = []string{"", " ", "x", "]"}[intn(t, 4, "trail")]
	n.Sibling = intn(t, 4, "sibling") == 0
	if intn(t, 3, "after?") == 0 {
		n.After = []string{"1.5", "1e5", "-0.25E-3", `"s"`, "true", "[]", "0", `{"a":2.5}`}[intn(t, 8, "after")]
		n.AfterLevels = []int{1, 2, 3, d}[intn(t, 4, "afterlevels")]
	}
	return n
}
